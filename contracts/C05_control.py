"""C05 / C02(part 2) / C07 - compiled control flow: K5 compile schemes (stack / handler discipline, jump
targets) over exhaustively enumerated statement skeletons run through the REAL parser and compiler, and the
bounded semantic comparison of the same skeletons against a reference interpreter with ECMAScript
completion semantics (specs/es_control.py)."""
from pyvc import groups
from pyvc.groups import ob
import specs.es_control as SK


FN_WRAPPERS = ("arrow", "funcexpr", "callback", "getter")
LOOPS = ("while", "dowhile", "for", "forin", "forof", "labelled-loop", "finally-after-break", "finally-after-continue")


def _valid_labels(combo, leaf):
    if leaf[0] in ("break", "continue"):
        # a jump cannot cross a function boundary: the target must lie inside the innermost nested function
        inner = list(combo)
        for i in range(len(combo) - 1, -1, -1):
            if combo[i] in FN_WRAPPERS:
                inner = list(combo[i + 1:])
                outer_fn = True
                break
        else:
            outer_fn = False
        if outer_fn:
            if leaf[1] is None:
                ok = False
                for c in reversed(inner):           # innermost first
                    if c in LOOPS:
                        ok = True
                        break
                    if leaf[0] == "break" and c.startswith("switch") and c != "switch-nodefault-miss":
                        ok = True                   # (switch-nodefault-miss repeats the hole after the switch)
                        break
                if not ok:
                    return False
            else:
                combo = tuple(inner)
    lab = leaf[1] if leaf[0] in ("break", "continue") else None
    if lab is None:
        return True
    n = sum(1 for c in combo if c.startswith("labelled"))
    if n != 1:
        return False
    if leaf[0] == "continue":
        return "labelled-loop" in combo
    return True


def _scheme_group(prop, gid, depth_quick, depth_thorough):
    def run(tier="quick", seed=0):
        from pyvc import schemes as K
        W, E = K.widths(), K.effects()
        depth = depth_quick if tier == "quick" else depth_thorough
        res = {}
        n = 0
        for d in range(1, depth + 1):
            for combo, leaf, prog in SK.skeletons(d):
                if not _valid_labels(combo, leaf):
                    continue
                src = "function P(){ " + SK.js(prog) + " return 'end' }"
                ps, _ = K.check_program(src, W, E)
                n += 1
                key = (combo[0], leaf[0] + ("-labelled" if leaf[0] in ("break", "continue") and leaf[1] else ""))
                r = res.setdefault(key, [0, None])
                r[0] += 1
                if ps and r[1] is None:
                    r[1] = (src, ps[0])
        out = []
        for (outer, leaf), (cnt, bad) in sorted(res.items()):
            out.append(ob(f"{prop}.scheme.{outer}.{leaf}", bad is None, "K5",
                          f"{cnt} skeletons (nesting <= {depth}) balanced" if bad is None else f"{bad[1]}",
                          witness=(bad[0] if bad else None), confirmed=False if bad else None, domain=cnt,
                          key=f"{prop}.scheme.{outer}.{leaf}"))
        return out
    run.__name__ = gid.replace(".", "_")
    return run


groups.group(id="C02.schemes", prop="C02", kind="K5", functions=["microjs.compiler:Compiler._compile_statement"])(
    _scheme_group("C02", "C02.schemes", 2, 3))
groups.group(id="C05.schemes", prop="C05", kind="K5", functions=["microjs.compiler:Compiler._compile_statement"])(
    _scheme_group("C05", "C05.schemes", 2, 3))


def _semantic_chunk(args):
    progs = args
    from microjs import Context
    out = []
    for combo, leaf, prog in progs:
        exp_log, exp_out = SK.expected(prog)
        src = SK.source(prog)
        try:
            r = Context(time_limit=5, memory_limit=2_000_000).eval(src)
            got = (r[0], r[1], r[2])
        except Exception as e:  # noqa
            got = ("<" + type(e).__name__ + ">", "raise", str(e)[:80])
        if exp_out[0] == "syntax":
            ok = got[0] == "<JSSyntaxError>"
        else:
            want = (",".join(exp_log), exp_out[0], "undefined" if exp_out[1] is None else str(exp_out[1]))
            ok = got == want
        if not ok:
            out.append((combo, leaf, src, got, (",".join(exp_log), exp_out)))
    return len(progs), out


def _semantic_group(prop, depth_quick, depth_thorough, want_leaves=None):
    def run(tier="quick", seed=0):
        import multiprocessing as mp
        depth = depth_quick if tier == "quick" else depth_thorough
        progs = []
        for d in range(1, depth + 1):
            for combo, leaf, prog in SK.skeletons(d):
                if not _valid_labels(combo, leaf):
                    continue
                if want_leaves and leaf[0] not in want_leaves:
                    continue
                progs.append((combo, leaf, prog))
        chunks = [progs[i::16] for i in range(16)]
        with mp.get_context("fork").Pool(16) as pool:
            rs = pool.map(_semantic_chunk, chunks)
        total = sum(r[0] for r in rs)
        bad = [b for r in rs for b in r[1]]
        by = {}
        for combo, leaf, prog in progs:
            key = (combo[0], leaf[0])
            by.setdefault(key, [0, None])[0] += 1
        for combo, leaf, src, got, want in bad:
            key = (combo[0], leaf[0])
            if by[key][1] is None:
                by[key][1] = (src, got, want)
        out = []
        for (outer, lf), (cnt, b) in sorted(by.items()):
            out.append(ob(f"{prop}.bounded.semantics.{outer}.{lf}", b is None, "B",
                          f"{cnt} skeletons agree with the reference interpreter" if b is None else f"engine {b[1]} expected {b[2]}",
                          witness=(b[0] if b else None), confirmed=True if b else None, domain=cnt,
                          key=f"{prop}.bounded.semantics.{outer}.{lf}"))
        return out
    return run


groups.group(id="C05.bounded.semantics", prop="C05", kind="B", functions=["microjs.context:Context.eval"])(
    _semantic_group("C05", 2, 3))
groups.group(id="C07.bounded.semantics", prop="C07", kind="B", functions=["microjs.context:Context.eval"])(
    _semantic_group("C07", 2, 3, want_leaves=("throw", "callthrow", "return", "break", "continue")))


# ---- bounded: the same skeletons as the LAST top-level statement (completion-value lowering) --------------------------
def _toplevel_chunk(progs):
    """side effects of a skeleton compiled through Compiler._compile_statement_for_value (the last statement of a
    script), alone and with empty-block tails, equal the reference log"""
    from microjs import Context
    from microjs.errors import JSError
    out = []
    n = 0
    for combo, leaf, prog in progs:
        exp_log, exp_out = SK.expected(prog)
        if exp_out[0] == "syntax":
            continue
        body = SK.js(prog)
        for vname, src in (("last", body), ("block-empty-tail", "{ " + body + " {} }"), ("nested-empty-tail", "{ " + body + " { L('tl'); { {} } } }"),
                           ("if-empty-tail", "if (C('ti', true)) { " + body + " {} }"), ("else-empty-tail", "if (C('ti', false)) {} else { " + body + " {} }")):
            want = list(exp_log)
            if vname.startswith(("if", "else")):
                want = ["ti"] + want
            if vname == "nested-empty-tail" and exp_out[0] != "throw":
                want = want + ["tl"]
            n += 1
            ctx = Context(time_limit=5, memory_limit=2_000_000)
            try:
                ctx.eval(SK.PRELUDE + src)
                raised = None
            except JSError as e:
                raised = "JSError"
            except Exception as e:  # noqa
                raised = type(e).__name__
            try:
                got = ctx.eval("log.join(',')")
            except Exception as e:  # noqa
                got = "<" + type(e).__name__ + ">"
            ok = got == ",".join(want) and ((raised == "JSError") == (exp_out[0] == "throw")) and raised in (None, "JSError")
            if not ok:
                out.append((combo, leaf, vname, SK.PRELUDE + src, (got, raised), (",".join(want), exp_out[0])))
    return n, out


def _toplevel_group(tier="quick", seed=0):
    import multiprocessing as mp
    depth = 1 if tier == "quick" else 2
    progs = []
    for d in range(0, depth + 1):
        for combo, leaf, prog in SK.skeletons(d, outer_loop=True):
            if leaf[0] == "return" or not _valid_labels(combo, leaf):
                continue
            if any(c in FN_WRAPPERS or c == "finally-after-return" for c in combo):      # (no `return` outside a function)
                continue
            progs.append((combo, leaf, prog))
    chunks = [progs[i::16] for i in range(16)]
    with mp.get_context("fork").Pool(16) as pool:
        rs = pool.map(_toplevel_chunk, chunks)
    total = sum(r[0] for r in rs)
    bad = [b for r in rs for b in r[1]]
    by = {}
    for combo, leaf, vname, src, got, want in bad:
        by.setdefault(vname, (src, got, want))
    out = []
    for vname in ("last", "block-empty-tail", "nested-empty-tail", "if-empty-tail", "else-empty-tail"):
        b = by.get(vname)
        out.append(ob(f"C05.bounded.toplevel.{vname}", b is None, "B",
                      f"{total // 5} skeletons as the last statement of a script ({vname}) do what the source says" if b is None else f"engine {b[1]} expected {b[2]}",
                      witness=(b[0] if b else None), confirmed=True if b else None, domain=total // 5))
    return out


groups.group(id="C05.bounded.toplevel", prop="C05", kind="B", functions=["microjs.compiler:Compiler._compile_statement_for_value"])(_toplevel_group)


# ---- variable kinds: every access form reaches the same variable ------------------------------------------------------
def _binding_extra(tier="quick", seed=0):
    """loop variables, catch parameters, hoisted functions, closures sharing one variable (specs/gen_bindings.EXTRA)"""
    from microjs import Context
    import specs.gen_bindings as GB
    out = []
    for cid, src, exp in GB.EXTRA:
        try:
            got = Context(time_limit=5).eval(src)
        except BaseException as e:  # noqa
            got = f"!{type(e).__name__}: {e}"[:120]
        ok = got in exp if isinstance(exp, set) else (got == exp and isinstance(got, bool) == isinstance(exp, bool))
        out.append(ob(f"C05.bounded.bindings.{cid}", ok, "B", f"{src[:80]} => {got!r}" + ("" if ok else f" (ES: {exp!r})"),
                      witness=None if ok else src, confirmed=None if ok else True, domain=1))
    return out


groups.group(id="C05.bounded.bindings", prop="C05", kind="B", functions=["microjs.compiler:Compiler._emit_store_variable"])(_binding_extra)


def _storage_classes(tier="quick", seed=0):
    """K5: in the code the real compiler emits for a function, every access to one variable (load, store, update,
    for-in/for-of target, catch binding, typeof, compound assignment) uses ONE storage class -- the cell when the
    variable is captured by an inner function, the local slot otherwise, the closure slot in the inner function"""
    from pyvc import schemes as K
    from microjs.opcodes import OpCode
    W = K.widths()
    out = []
    accesses = {
        "read": "r = v;", "assign": "v = 1;", "compound": "v += 1;", "pre-update": "++v;", "post-update": "r = v--;", "typeof": "r = typeof v;",
        "forin-target": "for (v in o) { }", "forof-target": "for (v of a) { }", "forin-var": "for (var v in o) { }", "forof-var": "for (var v of a) { }",
        "catch-param": "try { throw 1; } catch (v) { r = v; }", "call-arg": "g(v);", "member-base": "r = v.x;",
    }
    fams = {"local": {OpCode.LOAD_LOCAL, OpCode.STORE_LOCAL}, "cell": {OpCode.LOAD_CELL, OpCode.STORE_CELL},
            "closure": {OpCode.LOAD_CLOSURE, OpCode.STORE_CLOSURE}}
    for capture in ("uncaptured", "captured"):
        for aname, acc in accesses.items():
            decl = "" if aname in ("forin-var", "forof-var", "catch-param") else "var v;"
            cap = "var getv = function () { return v; };" if capture == "captured" else ""
            src = f"function P(o, a, g) {{ var r; {decl} {cap} {acc} return r; }}"
            if aname == "catch-param" and capture == "captured":
                # (the parameter exists in its block only: the capturing function is written there)
                src = "function P(o, a, g) { var r; try { throw 1; } catch (v) { var getv = function () { return v; }; r = v; } return r; }"
            try:
                c = K.compile_src(src)
                f = [x for x in K.all_functions(c) if x.name == "P"][0]
                used = set()
                # (a catch parameter is stored under a private name derived from its own)
                is_v = lambda n_: n_ == "v" or (aname == "catch-param" and n_.startswith("v\x00"))
                slot = next((i_ for i_, n_ in enumerate(f.locals) if is_v(n_)), None)
                cell = next((i_ for i_, n_ in enumerate(f.cell_vars) if is_v(n_)), None)
                ins, err = K.decode(f.bytecode, W)
                for op, arg, _w in ins.values():
                    if op in fams["local"] and arg == slot:
                        used.add("local")
                    if op in fams["cell"] and arg == cell:
                        used.add("cell")
                want = {"cell"} if capture == "captured" else {"local"}
                ok = used == want
                detail = f"{src}: accesses use {sorted(used)}, expected {sorted(want)}"
            except Exception as e:  # noqa
                ok, detail = False, f"{src}: {type(e).__name__}: {e}"
            out.append(ob(f"C05.scheme.storage.{capture}.{aname}", ok, "K5", detail, witness=None if ok else src, confirmed=False if not ok else None))
        # the inner function reaches the variable through its closure slot only
    for aname, acc in accesses.items():
        if aname in ("forin-var", "forof-var", "catch-param"):
            continue
        src = f"function P(o, a, g) {{ var v; var r; var inner = function () {{ {acc} return r; }}; return inner(); }}"
        try:
            c = K.compile_src(src)
            f = [x for x in K.all_functions(c) if x.name != "P" and x.name != "<program>"][0]
            used = set()
            fv = f.free_vars.index("v") if "v" in f.free_vars else None
            ins, err = K.decode(f.bytecode, W)
            for op, arg, _w in ins.values():
                if op in fams["closure"] and arg == fv:
                    used.add("closure")
                if op in (OpCode.LOAD_NAME, OpCode.STORE_NAME, OpCode.TYPEOF_NAME) and f.constants[arg] == "v":
                    used.add("global-name")
            ok = used == {"closure"}
            detail = f"{src}: the inner function uses {sorted(used)}"
        except Exception as e:  # noqa
            ok, detail = False, f"{src}: {type(e).__name__}: {e}"
        out.append(ob(f"C05.scheme.storage.enclosing.{aname}", ok, "K5", detail, witness=None if ok else src, confirmed=False if not ok else None))
    return out


groups.group(id="C05.schemes.storage", prop="C05", kind="K5", functions=["microjs.compiler:Compiler._compile_expression", "microjs.compiler:Compiler._emit_store_variable"])(_storage_classes)


# ---- fixed probes (known deviations are listed in /verif/known_findings.json and reported as KNOWN-FINDING) ------------------
PROBES_C05 = [('catch-parameter-scope', 'var e = 1; try { throw 2 } catch (e) { } e', 1), ('nested-labels-on-one-loop', 'var n = 0; a: b: while (n < 2) { n++; continue a; } n', 2)]
# completion value of a script whose LAST statement is not an expression statement, a block or an if: ECMAScript carries the
# value of the last expression statement executed inside it (UpdateEmpty); the engine yields undefined (open known finding)
PROBES_C05 += [
    ("completion-value-of-switch", "switch (1) { case 1: 5 }", 5),
    ("completion-value-of-loops", "var out = []; out.push(eval('for (var i = 0; i < 2; i++) { i + 10 }')); out.push(eval('var j = 0; while (j < 2) { j++; j * 2 }')); out.push(eval('do { 9 } while (false)')); out.join()", "11,4,9"),
    ("completion-value-of-try", "[eval('try { 1 } catch (e) { }'), eval('try { throw 1 } catch (e) { e + 1 }'), eval('try { 1 } finally { 2 }')].join()", "1,2,1"),
    ("completion-value-of-labelled-statement", "lbl: 7", 7),
    ("completion-value-kept-over-empty-statements", "[eval('8; var y'), eval('8; ;'), eval('8; function f() {}'), eval('5; {}'), String(eval('8; if (0) 1')), String(eval('1; while (false) {}'))].join()", "8,8,8,5,undefined,undefined"),
    ("completion-value-of-supported-forms", "[eval('1; 2'), eval('{ 4 }'), eval('if (1) { 3 }'), eval('if (0) 1; else 2')].join()", "2,4,3,2"),
]
groups.register_probes("C05", PROBES_C05)


COMPLETION_CASES = {     # expected values: ECMA-262 14 (UpdateEmpty), cross-checked with node 20 at development time
    '8; if (0) 1': None, '8; var y': 8, '8; ;': 8, '8; function f() {}': 8, 'switch (1) { case 1: 5 }': 5, 'for (var i = 0; i < 2; i++) { i + 10 }': 11, 'var j = 0; while (j < 2) { j++; j * 2 }': 4,
    'do { 9 } while (false)': 9, 'try { 1 } catch (e) { }': 1, 'try { throw 1 } catch (e) { e + 1 }': 2, 'try { 1 } finally { 2 }': 1, 'lbl: 7': 7, '1; while (false) {}': None, '1; 2': 2, '{ 4 }': 4, 'if (1) { 3 }': 3,
    'if (0) 1; else 2': 2, '5; {}': 5, '6; try {} finally {}': None, '7; switch (1) {}': None, 'eval("1; 2")': 2, 'var r = eval("3; var q"); r': 3, 'function f(){ 5 } f()': None, 'function f(){ 5 } f(); 6': 6,
    '1; [1].forEach(function(){ 9 })': None, 'for (var k in {a: 1}) { k }': 'a', 'for (var v of [5]) { v }': 5, 'var x = 1; x; var y': 1, 'do { 9; break } while (true)': 9, 'try { 1; throw 0 } catch (e) { }': None,
    '1; try { 2 } finally { 3 }': 2, 'a: { 1; break a; 2 }': 1, 'if (1) 2; else 3': 2, '1; if (1) { }': None, '': None, ';': None, 'var z = 4': None, 'w = 1': 1, '1; for (;;) { break }': None,
    'var n = 0; for (;;) { n++; if (n > 2) break; n * 10 }': None, 'var n = 0; do { n++; n * 10 } while (n < 2)': 20, '1; switch (2) { case 1: 5 }': None, 'switch (1) { case 1: 5; break; case 2: 6 }': 5, 'switch (3) { case 1: 5; default: 7 }': 7,
    'try { try { 1 } finally { 9 } } catch (e) { 2 }': 1, 'new Function("1; 2")()': None, '(function () { return eval("4; if (1) { 5 }") })()': 5, '3; eval("")': None, '3; eval("var q1")': None,
}


@groups.group(id="C05.bounded.completion-values", prop="C05", kind="B", functions=["microjs.compiler:Compiler.compile", "microjs.compiler:Compiler._reset_completion", "microjs.vm:VM._execute_opcode[SET_COMPLETION]"])
def c05_completion_values(tier="quick", seed=0):
    """the completion value of the script for every statement form as the last (or only value-producing) statement: the value
    of the last expression statement that ran; if / loops / switch / try start from undefined, declarations and empty
    statements keep what there is, the value of a finally block does not count"""
    from microjs import Context
    bad = None
    for src, want in COMPLETION_CASES.items():
        try:
            got = Context(time_limit=5).eval(src)
        except BaseException as e:  # noqa
            got = f"!{type(e).__name__}: {e}"[:80]
        if got != want and bad is None:
            bad = (src, f"{got!r}, ECMAScript {want!r}")
    return [ob("C05.bounded.completion-values", bad is None, "B", f"{len(COMPLETION_CASES)} scripts" if bad is None else f"{bad[0]!r}: {bad[1]}", witness=(bad[0] if bad else None),
               confirmed=True if bad else None, domain=len(COMPLETION_CASES))]


# =======================================================================================================================
# K1: the iterators behind for-of and for-in, for every array / key list / position
# =======================================================================================================================
from pyvc.api import *      # noqa: E402


def c_forof_next_array(it: Obj("ForOfIterator"), arr: Obj("JSArray"), idx: IntRange(0, 2 ** 31)):
    """ForOfIterator.next over an array: the element is read from the array AS IT IS NOW (what the loop body pushed is
    visited, what it removed is not), the position advances by one, and the end is reported exactly when the position
    has reached the array's current length; the array is not touched"""
    it.values = arr
    it.index = idx
    n = len(arr._elements)
    snap = heap_snapshot()
    r = outcome(REAL, it)
    check("never-raises", r[0] == "ret")
    if idx >= n:
        check("done-at-the-current-end", r[1][1] is True)
        check("position-stays", it.index == idx)
    else:
        check("not-done", r[1][1] is False)
        check("yields-the-current-element", same_value(r[1][0], arr._elements[idx]))
        check("advances-by-one", it.index == idx + 1)
    check("iterates-the-same-array", same_ref(it.values, arr))
    check("nothing-else-changes", heap_unchanged(snap, (it, "index")))


def c_forof_next_list(it: Obj("ForOfIterator"), lst: ValList, idx: IntRange(0, 2 ** 31)):
    """ForOfIterator.next over a fixed list of values (the characters of a string, the elements of a typed array)"""
    it.values = lst
    it.index = idx
    n = len(lst)
    r = outcome(REAL, it)
    check("never-raises", r[0] == "ret")
    if idx >= n:
        check("done-at-the-end", r[1][1] is True)
        check("position-stays", it.index == idx)
    else:
        check("not-done", r[1][1] is False)
        check("yields-the-element", same_value(r[1][0], lst[idx]))
        check("advances-by-one", it.index == idx + 1)


def _native_iter(cls, name):
    def make():
        import microjs.vm as V_
        return getattr(getattr(V_, cls), name)
    return make


register(c_forof_next_array, id="C05.ForOfIterator.next.array", prop="C05", target=method("microjs.vm", "ForOfIterator.next"), native=_native_iter("ForOfIterator", "next"))
register(c_forof_next_list, id="C05.ForOfIterator.next.list", prop="C05", target=method("microjs.vm", "ForOfIterator.next"), native=_native_iter("ForOfIterator", "next"))


def _own(obj, key):
    return key in obj._properties or key in obj._getters or key in obj._setters


@writes("index")
def inv_forin_next(self):
    idx0 = ghost_get("idx0", None)
    j = ghost_get("j", None)
    keys = ghost_get("keys", None)
    obj = ghost_get("obj", None)
    if not (idx0 <= self.index and self.index <= len(keys)):
        return False
    if not heap_unchanged(loop_entry(), (self, "index")):      # (the loop moves this iterator's position and nothing else)
        return False
    # every key passed over so far is one the object no longer has
    return not (idx0 <= j and j < self.index) or not _own(obj, keys[j])


def c_forin_next(it: Obj("ForInIterator"), obj: Obj("JSObject"), keys: ValList, idx: IntRange(0, 2 ** 31), j: IntRange(0, 2 ** 31)):
    """ForInIterator.next: it yields the next key (in the order fixed when the loop started) that the object STILL has
    as an own property -- keys deleted meanwhile are passed over, every one of them (j is any position) -- advances past
    it, and reports the end when no such key is left; the object and the key list are not touched"""
    assume(elems_are(keys, "str"))
    assume(idx <= len(keys))
    it.keys = keys
    it.obj = obj
    it.index = idx
    ghost_set("idx0", idx)
    ghost_set("j", j)
    ghost_set("keys", keys)
    ghost_set("obj", obj)
    snap = heap_snapshot()
    r = outcome(REAL, it)
    check("never-raises", r[0] == "ret")
    if r[1][1] is True:
        check("done-means-the-list-is-exhausted", it.index == len(keys))
        check("done-means-no-live-key-was-left", not (idx <= j and j < len(keys)) or not _own(obj, keys[j]))
    else:
        k = it.index - 1
        check("yields-a-key-of-the-list-at-or-after-the-position", idx <= k and k < len(keys) and same_value(r[1][0], keys[k]))
        check("the-key-is-still-an-own-property", _own(obj, keys[k]))
        check("every-key-passed-over-is-gone", not (idx <= j and j < k) or not _own(obj, keys[j]))
    check("nothing-else-changes", heap_unchanged(snap, (it, "index")))


_FIN = "microjs.vm:ForInIterator.next"
register(c_forin_next, id="C05.ForInIterator.next", prop="C05", target=method("microjs.vm", "ForInIterator.next"), native=_native_iter("ForInIterator", "next"),
         invariants={(_FIN, 0): inv_forin_next})
