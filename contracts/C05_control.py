"""C05 / C02(part 2) / C07 - compiled control flow: K5 compile schemes (stack / handler discipline, jump
targets) over exhaustively enumerated statement skeletons run through the REAL parser and compiler, and the
bounded semantic comparison of the same skeletons against a reference interpreter with ECMAScript
completion semantics (specs/es_control.py)."""
from pyvc import groups
from pyvc.groups import ob
import specs.es_control as SK


def _valid_labels(combo, leaf):
    lab = leaf[1] if leaf[0] in ("break", "continue") else None
    if lab is None:
        return True
    n = sum(1 for c in combo if c.startswith("labelled"))
    if n != 1:
        return False
    if leaf[0] == "continue":
        return "labelled-loop" in combo
    return True


def _scheme_group(prop, gid, depth_quick, depth_thorough):
    def run(tier="quick", seed=0):
        from pyvc import schemes as K
        W, E = K.widths(), K.effects()
        depth = depth_quick if tier == "quick" else depth_thorough
        res = {}
        n = 0
        for d in range(1, depth + 1):
            for combo, leaf, prog in SK.skeletons(d):
                if not _valid_labels(combo, leaf):
                    continue
                src = "function P(){ " + SK.js(prog) + " return 'end' }"
                ps, _ = K.check_program(src, W, E)
                n += 1
                key = (combo[0], leaf[0] + ("-labelled" if leaf[0] in ("break", "continue") and leaf[1] else ""))
                r = res.setdefault(key, [0, None])
                r[0] += 1
                if ps and r[1] is None:
                    r[1] = (src, ps[0])
        out = []
        for (outer, leaf), (cnt, bad) in sorted(res.items()):
            out.append(ob(f"{prop}.scheme.{outer}.{leaf}", bad is None, "K5",
                          f"{cnt} skeletons (nesting <= {depth}) balanced" if bad is None else f"{bad[1]}",
                          witness=(bad[0] if bad else None), confirmed=False if bad else None, domain=cnt,
                          key=f"{prop}.scheme.{outer}.{leaf}"))
        return out
    run.__name__ = gid.replace(".", "_")
    return run


groups.group(id="C02.schemes", prop="C02", kind="K5", functions=["microjs.compiler:Compiler._compile_statement"])(
    _scheme_group("C02", "C02.schemes", 2, 3))
groups.group(id="C05.schemes", prop="C05", kind="K5", functions=["microjs.compiler:Compiler._compile_statement"])(
    _scheme_group("C05", "C05.schemes", 2, 3))


def _semantic_chunk(args):
    progs = args
    from microjs import Context
    out = []
    for combo, leaf, prog in progs:
        exp_log, exp_out = SK.expected(prog)
        src = SK.source(prog)
        try:
            r = Context(time_limit=5, memory_limit=2_000_000).eval(src)
            got = (r[0], r[1], r[2])
        except Exception as e:  # noqa
            got = ("<" + type(e).__name__ + ">", "raise", str(e)[:80])
        if exp_out[0] == "syntax":
            ok = got[0] == "<JSSyntaxError>"
        else:
            want = (",".join(exp_log), exp_out[0], "undefined" if exp_out[1] is None else str(exp_out[1]))
            ok = got == want
        if not ok:
            out.append((combo, leaf, src, got, (",".join(exp_log), exp_out)))
    return len(progs), out


def _semantic_group(prop, depth_quick, depth_thorough, want_leaves=None):
    def run(tier="quick", seed=0):
        import multiprocessing as mp
        depth = depth_quick if tier == "quick" else depth_thorough
        progs = []
        for d in range(1, depth + 1):
            for combo, leaf, prog in SK.skeletons(d):
                if not _valid_labels(combo, leaf):
                    continue
                if want_leaves and leaf[0] not in want_leaves:
                    continue
                progs.append((combo, leaf, prog))
        chunks = [progs[i::16] for i in range(16)]
        with mp.get_context("fork").Pool(16) as pool:
            rs = pool.map(_semantic_chunk, chunks)
        total = sum(r[0] for r in rs)
        bad = [b for r in rs for b in r[1]]
        by = {}
        for combo, leaf, prog in progs:
            key = (combo[0], leaf[0])
            by.setdefault(key, [0, None])[0] += 1
        for combo, leaf, src, got, want in bad:
            key = (combo[0], leaf[0])
            if by[key][1] is None:
                by[key][1] = (src, got, want)
        out = []
        for (outer, lf), (cnt, b) in sorted(by.items()):
            out.append(ob(f"{prop}.bounded.semantics.{outer}.{lf}", b is None, "B",
                          f"{cnt} skeletons agree with the reference interpreter" if b is None else f"engine {b[1]} expected {b[2]}",
                          witness=(b[0] if b else None), confirmed=True if b else None, domain=cnt,
                          key=f"{prop}.bounded.semantics.{outer}.{lf}"))
        return out
    return run


groups.group(id="C05.bounded.semantics", prop="C05", kind="B", functions=["microjs.context:Context.eval"])(
    _semantic_group("C05", 2, 3))
groups.group(id="C07.bounded.semantics", prop="C07", kind="B", functions=["microjs.context:Context.eval"])(
    _semantic_group("C07", 2, 3, want_leaves=("throw", "callthrow", "return", "break", "continue")))
