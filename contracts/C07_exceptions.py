"""C07 - exceptions unwind to the right handler; finally runs exactly once.
K3 obligations on VM._throw and the run loops, K5 try/catch/finally schemes (contracts/C05_control.py),
bounded products: throw site x handler placement across native frames, error objects."""
from pyvc import structural as _S_
from pyvc import groups
from pyvc.groups import ob
import contracts.C05_control  # noqa: registers C07.bounded.semantics
from contracts.C05_control import _scheme_group

groups.group(id="C07.schemes", prop="C07", kind="K5", functions=["microjs.compiler:Compiler._compile_statement"])(
    _scheme_group("C07", "C07.schemes", 2, 3))


@groups.group(id="C07.struct", prop="C07", kind="K3", functions=["microjs.vm:VM._throw", "microjs.vm:VM._execute", "microjs.vm:VM._run_nested_loop"])
def c07_struct(tier="quick", seed=0):
    from pyvc import structural as S
    import ast
    out = []
    th = S.fn("microjs.vm", "VM._throw")
    src = _S_.unparse(th)
    checks = {
        "pops-innermost-handler": "frame_idx, catch_ip, stack_depth = self.exception_handlers.pop()" in src,
        "truncates-frames-to-handler": "while len(self.call_stack) > frame_idx + 1:" in src and "self.call_stack.pop()" in src,
        "truncates-operands": "del self.stack[stack_depth:]" in src,
        "jumps-to-catch": "frame.ip = catch_ip" in src and "frame = self.call_stack[-1]" in src,
        "pushes-thrown-value-unchanged": "self.stack.append(exc)" in src,
        "abandons-native-frames": "if self._native_entry and frame_idx < self._native_entry[-1]:" in src and "raise NativeUnwind()" in src,
        "uncaught-becomes-JSError": (src.count("raise JSError(") >= 3 or src.count("error = JSError(") >= 3) and ("error.value = exc" in src or "raise JSError(" in src),
    }
    # order: state change before the NativeUnwind signal
    i1, i2 = src.find("self.stack.append(exc)"), src.find("raise NativeUnwind()")
    checks["state-set-before-unwind"] = 0 <= i1 < i2
    for k, v in checks.items():
        out.append(ob(f"C07.struct.throw.{k}", v, "K3", f"VM._throw: {k}: {v}"))
    ex = _S_.unparse(S.fn("microjs.vm", "VM._execute"))
    out.append(ob("C07.struct.execute-continues-after-unwind", "except NativeUnwind:\n                pass" in ex or "except NativeUnwind:\n    pass" in ex.replace("        ", ""), "K3",
                  "the main loop resumes at the handler after a NativeUnwind"))
    loops = [f for f in S.dispatchers() if f.name != "_execute"]
    ok = False
    if len(loops) == 1:
        ls = _S_.unparse(loops[0])
        ok = "except NativeUnwind:" in ls and "if len(self.call_stack) <= call_stack_len:" in ls and "raise" in ls
    out.append(ob("C07.struct.nested-loop-reraises-foreign-unwind", ok, "K3", "a nested run loop continues only when the handler belongs to one of its frames"))
    # TRY_START records frame index, catch address and operand depth
    ops = _S_.unparse(S.fn("microjs.vm", "VM._execute_opcode"))
    out.append(ob("C07.struct.try-start-records", "self.exception_handlers.append((len(self.call_stack) - 1, arg, len(self.stack)))" in ops, "K3",
                  "TRY_START records (frame index, catch ip, operand depth)"))
    # runtime errors become objects built by the matching constructor
    hp = _S_.unparse(S.fn("microjs.vm", "VM._handle_python_exception"))
    out.append(ob("C07.struct.error-built-by-constructor", "error_constructor = self.globals.get(error_type)" in hp and "error_constructor._call_fn(message)" in hp, "K3",
                  "host-level errors are turned into objects by the constructor of the same name"))
    return out


BUILTINS = {
    "forEach": "[1,2].forEach(function(x){ {B} })", "map": "[1,2].map(function(x){ {B} })", "filter": "[1,2].filter(function(x){ {B} })",
    "reduce": "[1,2,3].reduce(function(a,x){ {B} })", "reduceRight": "[1,2,3].reduceRight(function(a,x){ {B} })",
    "find": "[1,2].find(function(x){ {B} })", "findIndex": "[1,2].findIndex(function(x){ {B} })", "some": "[1,2].some(function(x){ {B} })",
    "every": "[1,2].every(function(x){ {B} })", "sort": "[2,1].sort(function(a,b){ {B} })",
    "getter": "({get p(){ {B} }}).p", "setter": "({set p(v){ {B} }}).p = 1", "valueOf": "({valueOf:function(){ {B} }}) * 2",
    "toString": "'' + ({toString:function(){ {B} }})", "call": "(function(){ {B} }).call(null)", "apply": "(function(){ {B} }).apply(null, [])",
    "bind": "(function(){ {B} }).bind(null)()", "direct": "(function(){ {B} })()", "new": "new (function(){ {B} })()",
    "nested-map": "[1].map(function(a){ return [2].map(function(b){ {B} }) })",
}
THROWS = {
    "throw-string": ("throw 'boom';", "boom", None), "throw-object": ("throw OBJ;", "[object Object]", None),
    "type-error": ("null.x;", None, "TypeError"), "reference-error": ("undefinedName;", None, "ReferenceError"),
    "range-error": ("'a'.repeat(-1);", None, "RangeError"), "not-a-function": ("(5)();", None, "TypeError"),
    "new-error": ("throw new RangeError('custom');", None, "RangeError"),
}
PLACEMENTS = {
    "same-function": "function run(){ L('a'); {CALL}; L('no') }\n try { run() } catch(e) { L('outer:' + D(e)) }",
    "caller": "function run(){ L('a'); {CALL}; L('no') }\nfunction mid(){ try { run(); L('no2') } catch(e) { L('mid:' + D(e)) } L('m-after') }\n mid()",
    "callers-caller": "function run(){ L('a'); {CALL}; L('no') }\nfunction mid(){ run(); L('no2') }\nfunction top(){ try { mid(); L('no3') } catch(e) { L('top:' + D(e)) } finally { L('fin') } } top()",
    "around-builtin": "function run(){ L('a'); try { {CALL}; L('no') } catch(e) { L('in:' + D(e)) } L('r-after') } run()",
    "inside-callback": None,
}
PRE = ("var log=[]; var OBJ={tag:1}; function L(x){ log.push(x); return x }\n"
       "function D(e){ return (e === OBJ) ? 'OBJ' : (typeof e === 'object' && e !== null) ? (e.name + '/' + (e instanceof Error)) : String(e) }\n")


def _nf_case(args):
    name, src, want = args
    from microjs import Context
    try:
        r = Context(time_limit=5).eval(src)
        got = r
    except Exception as e:  # noqa
        got = "<" + type(e).__name__ + ">"
    return name, src, got, want


@groups.group(id="C07.bounded.native-frames", prop="C07", kind="B", functions=["microjs.vm:VM._throw", "microjs.vm:VM._call_callback"])
def c07_native_frames(tier="quick", seed=0):
    import multiprocessing as mp
    cases = []
    for bn, bt in BUILTINS.items():
        for tn, (tcode, tstr, tname) in THROWS.items():
            desc = "OBJ" if tn == "throw-object" else (tstr if tname is None else f"{tname}/true")
            body = "L('cb'); " + tcode + " L('never')"
            call = bt.replace("{B}", body)
            for pn, pt in PLACEMENTS.items():
                if pt is None:
                    inner = "try { " + tcode + " L('never') } catch(e) { L('cb-caught:' + D(e)) } return 1"
                    src = PRE + "L('a'); " + bt.replace("{B}", "L('cb'); " + inner) + "; L('done'); log.join(',')"
                    # callback runs once per element for iterating built-ins: only check prefix and that nothing leaks
                    want = ("prefix", f"a,cb,cb-caught:{desc}", "done")
                else:
                    src = PRE + pt.replace("{CALL}", call) + "\nlog.join(',')"
                    tag = {"same-function": "outer", "caller": "mid", "callers-caller": "top", "around-builtin": "in"}[pn]
                    tail = {"same-function": "", "caller": ",m-after", "callers-caller": ",fin", "around-builtin": ",r-after"}[pn]
                    want = ("exact", f"a,cb,{tag}:{desc}{tail}")
                cases.append((f"{bn}.{tn}.{pn}", src, want))
            # uncaught: eval raises JSError
            cases.append((f"{bn}.{tn}.uncaught", PRE + call, ("raises", "JSError")))
    with mp.get_context("fork").Pool(16) as pool:
        res = pool.map(_nf_case, cases)
    by = {}
    for name, src, got, want in res:
        b = name.split(".")[0]
        by.setdefault(b, [0, None])[0] += 1
        if want[0] == "exact":
            ok = got == want[1]
        elif want[0] == "prefix":
            ok = isinstance(got, str) and got.startswith(want[1]) and got.endswith(want[2]) and "never" not in got
        else:
            ok = got == "<JSError>"
        if not ok and by[b][1] is None:
            by[b][1] = (name, src, got, want)
    return [ob(f"C07.bounded.native-frames.{b}", bad is None, "B", f"{n} cases" if bad is None else f"{bad[0]}: got {bad[2]!r}, expected {bad[3]!r}",
               witness=(bad[1] if bad else None), confirmed=True if bad else None, domain=n) for b, (n, bad) in sorted(by.items())]


# =======================================================================================================================
# K1: VM._throw with a live handler -- for every handler stack, call stack and operand stack
# =======================================================================================================================
from pyvc.api import *      # noqa: E402


@writes("list.items")
def inv_throw_unwind(self, frame_idx):
    """the unwinding loop only pops frames: the call stack is a prefix of what it was, not shorter than the handler's frame"""
    frames0 = ghost_get("frames0", None)
    n = len(self.call_stack)
    return (frame_idx + 1 <= n and n <= len(frames0) and same_elements(self.call_stack, frames0[:n])
            and heap_unchanged(loop_entry(), (self.call_stack, "list.items")))


def c_throw_caught(vm: Obj("VM"), exc: JSPrim, hs: ValList, frames: ValList, target: Obj("CallFrame"), stack: ValList,
                   fi: IntRange(0, 2 ** 20), ip: IntRange(0, 2 ** 16), sd: IntRange(0, 2 ** 20), native: ValList):
    """throw with a handler installed: the INNERMOST handler (the last one pushed) is taken and removed, the frames above
    its frame are dropped, the operands pushed since TRY_START are dropped, the thrown value is the only new operand and
    control continues at the handler's catch address in the handler's frame; the other handlers are untouched"""
    assume(fi < len(frames) and sd <= len(stack))
    assume(same_ref(frames[fi], target))
    # the four lists are separate objects (VM.__init__ creates each)
    assume(not same_ref(frames, stack) and not same_ref(frames, hs) and not same_ref(stack, hs))
    assume(not same_ref(native, frames) and not same_ref(native, stack) and not same_ref(native, hs))
    vm.exception_handlers = hs
    vm.exception_handlers.append((fi, ip, sd))
    frames0, stack0, hs0 = frames[:], stack[:], hs[:len(hs) - 1]
    vm.call_stack = frames
    vm.stack = stack
    vm._native_entry = []
    ghost_set("frames0", frames0)
    r = outcome(REAL, vm, exc)
    check("handled-without-a-host-exception", r[0] == "ret")
    check("innermost-handler-removed-others-kept", same_elements(vm.exception_handlers, hs0))
    check("frames-above-the-handler-dropped", same_elements(vm.call_stack, frames0[:fi + 1]))
    check("operands-since-TRY_START-dropped-value-pushed", same_elements(vm.stack, stack0[:sd] + [exc]))
    check("continues-at-the-catch-address", target.ip == ip)


def c_throw_caught_across_native(vm: Obj("VM"), exc: JSPrim, hs: ValList, frames: ValList, target: Obj("CallFrame"), stack: ValList,
                                 fi: IntRange(0, 2 ** 20), ip: IntRange(0, 2 ** 16), sd: IntRange(0, 2 ** 20), native: ValList,
                                 depth: IntRange(0, 2 ** 20)):
    """the same with nested run loops active (built-ins calling back into script code): the state is unwound to the
    handler exactly as above, and NativeUnwind is raised if and only if the handler's frame lies below the frame
    that entered the innermost nested loop -- so the built-ins in between are abandoned and the handler, not they,
    continues"""
    assume(fi < len(frames) and sd <= len(stack))
    assume(same_ref(frames[fi], target))
    assume(not same_ref(frames, stack) and not same_ref(frames, hs) and not same_ref(stack, hs))
    assume(not same_ref(native, frames) and not same_ref(native, stack) and not same_ref(native, hs))
    vm.exception_handlers = hs
    vm.exception_handlers.append((fi, ip, sd))
    frames0, stack0, hs0 = frames[:], stack[:], hs[:len(hs) - 1]
    vm.call_stack = frames
    vm.stack = stack
    vm._native_entry = native
    vm._native_entry.append(depth)
    native0 = native[:]
    ghost_set("frames0", frames0)
    r = outcome(REAL, vm, exc)
    check("NativeUnwind-iff-handler-below-the-nested-loop", (exc_in(r, ("NativeUnwind",)) and fi < depth) or (r[0] == "ret" and fi >= depth))
    check("innermost-handler-removed-others-kept", same_elements(vm.exception_handlers, hs0))
    check("frames-above-the-handler-dropped", same_elements(vm.call_stack, frames0[:fi + 1]))
    check("operands-since-TRY_START-dropped-value-pushed", same_elements(vm.stack, stack0[:sd] + [exc]))
    check("continues-at-the-catch-address", target.ip == ip)
    check("nested-loop-entries-untouched", same_elements(vm._native_entry, native0))


def _native_throw():
    from microjs.vm import VM
    return VM._throw


register(c_throw_caught, id="C07.VM._throw.caught", prop="C07", target=method("microjs.vm", "VM._throw"), native=None,
         invariants={("microjs.vm:VM._throw", "len(self.call_stack) > frame_idx + 1"): inv_throw_unwind}, prim_args=False)
register(c_throw_caught_across_native, id="C07.VM._throw.caught-across-native", prop="C07", target=method("microjs.vm", "VM._throw"), native=None,
         invariants={("microjs.vm:VM._throw", "len(self.call_stack) > frame_idx + 1"): inv_throw_unwind}, prim_args=False)


@groups.group(id="C07.bounded.positions", prop="C07", kind="B", functions=["microjs.lexer:Lexer._skip_whitespace", "microjs.lexer:Lexer._advance"])
def c07_positions(tier="quick", seed=0):
    """the location of a throw statement is the position of its keyword, whatever white space and comments precede it, also comments spanning lines (the layouts of C13)"""
    from contracts.C13_parsing import c13_positions
    out = []
    for o in c13_positions(tier, seed):
        if o["id"].endswith(".throw"):
            o = dict(o)
            o["id"] = o["id"].replace("C13.", "C07.", 1)
            o["finding_key"] = o["id"]
            out.append(o)
    return out


# ---- fixed probes (known deviations are listed in /verif/known_findings.json and reported as KNOWN-FINDING) ------------------
PROBES_C07 = [('throw-location-inside-function', "function f(){ throw new Error('x') }\nvar r; try { f() } catch (e) { r = [e.lineNumber, e.columnNumber].join() } r", '1,15')]
groups.register_probes("C07", PROBES_C07)


# regression probes: what code run by a built-in in a VM of its own leaves uncaught reaches the calling script's handlers
PROBES_C07 += [
    ("location-not-taken-from-an-unrelated-function", "var r;\nfunction g(){ throw new Error('a'); }\n\n\ntry { throw new Error('b') } catch (e) { r = [e.lineNumber, e.columnNumber].join() } r", "5,7"),
    ("location-inside-nested-functions", "function outer(){ function inner(){\n throw new Error('deep') } inner() }\nvar r; try { outer() } catch (e) { r = [e.lineNumber, e.columnNumber].join() } r", "2,2"),
    ("eval-syntax-error-catchable", "var r; try { eval('(') } catch (e) { r = 'caught ' + e.name } r", "caught SyntaxError"),
    ("eval-throw-keeps-value", "var o = {k: 1}; var r; try { eval('throw o') } catch (e) { r = (e === o) } r", True),
    ("eval-runtime-error-kind", "var r; try { eval('null.x') } catch (e) { r = e.name + ':' + (e instanceof TypeError) } r", "TypeError:true"),
    ("Function-syntax-error-catchable", "var r; try { new Function('(') } catch (e) { r = e.name } r", "SyntaxError"),
    ("Function-throw-catchable", "var r; try { new Function('throw 7')() } catch (e) { r = e } r", 7),
    ("getter-throw-through-Object.values", "var r; try { Object.values({get x(){ throw new Error('g') }}) } catch (e) { r = e.message } r", "g"),
    ("setter-throw-through-Object.assign", "var r; try { Object.assign({set x(v){ throw new RangeError('boom') }}, {x: 1}) } catch (e) { r = e.name + e.message } r", "RangeErrorboom"),
    ("eval-throw-in-callback", "var r; try { [1].map(function(){ return eval('throw 5') }) } catch (e) { r = e } r", 5),
    ("eval-throw-runs-finally-once", "var r = []; try { try { eval('throw 1') } finally { r.push('f') } } catch (e) { r.push(e) } r.join()", "f,1"),
    ("thrown-object-is-not-modified", "var o = {a: 1}; var ks; try { throw o } catch (e) { ks = Object.keys(e).join() } ks + '|' + JSON.stringify(o) + '|' + (function () { try { [1].forEach(function () { throw o }) } catch (e) { return Object.keys(e).join() } })()", 'a|{"a":1}|a'),
    ("errors-still-get-their-location", "var r; try { null.x } catch (e) { r = typeof e.lineNumber } var s; try { throw new RangeError('q') } catch (e) { s = typeof e.lineNumber + typeof e.columnNumber } r + s", "numbernumbernumber"),
    ("uncaught-names-the-error", lambda Context: _uncaught(Context, "throw new TypeError('tt')"), "TypeError: tt"),
    ("uncaught-array", lambda Context: _uncaught(Context, "throw [1, 2]"), "Error: 1,2"),
    ("uncaught-from-eval", lambda Context: _uncaught(Context, "eval(\"throw new RangeError('r')\")"), "RangeError: r"),
]


def _uncaught(Context, src):
    try:
        Context(time_limit=10).eval(src)
        return "no error"
    except Exception as e:  # noqa
        return f"{type(e).__name__}|{e}".split("|", 1)[1] if type(e).__name__ == "JSError" else f"{type(e).__name__}: {e}"


# ---- bounded: the thrown value arrives intact, whatever it is and whichever way it travels ---------------------------------
THROWN = ["0", "-0", "''", "null", "undefined", "false", "NaN", "1", "'s'", "true", "obj", "arr", "fn", "new Error('m')", "new TypeError('t')", "[]", "({})"]
ROUTES = {
    "direct": "throw V",
    "function": "(function () { throw V })()",
    "eval": "eval('throw V')",
    "indirect-eval": "(0, eval)('throw V')",
    "Function": "new Function('throw V')()",
    "eval-in-function": "(function () { return eval('throw V') })()",
    "callback-map": "[1].map(function () { throw V })",
    "callback-sort": "[2, 1].sort(function () { throw V })",
    "callback-replace": "'a'.replace(/a/, function () { throw V })",
    "callback-reduce": "[1, 2].reduce(function () { throw V })",
    "getter": "({get x() { throw V }}).x",
    "getter-Object.values": "Object.values({get x() { throw V }})",
    "getter-Object.entries": "Object.entries({get x() { throw V }})",
    "getter-Object.assign": "Object.assign({}, {get x() { throw V }})",
    "setter-Object.assign": "Object.assign({set x(v) { throw V }}, {x: 1})",
    "getter-JSON.stringify": "JSON.stringify({get x() { throw V }})",
    "toJSON": "JSON.stringify({toJSON: function () { throw V }})",
    "valueOf": "({valueOf: function () { throw V }}) * 1",
    "toString": "'' + {toString: function () { throw V }}",
    "call": "(function () { throw V }).call(null)",
    "apply": "(function () { throw V }).apply(null, [])",
    "bind": "(function () { throw V }).bind(null)()",
    "new": "new (function () { throw V })()",
    "eval-in-callback": "[1].forEach(function () { eval('throw V') })",
    "callback-in-eval": "eval('[1].forEach(function () { throw V })')",
    "finally-passes": "try { throw V } finally { 1 }",
    "rethrow": "try { throw V } catch (x) { throw x }",
    "nested-eval": "eval(\"eval('throw V')\")",
}


def _thrown_chunk(routes):
    from microjs import Context
    bad, n = [], 0
    for rn in routes:
        for v in THROWN:
            src = ("var obj = {k: 1}, arr = [1], fn = function () {}; var W = " + v + "; var r = 'not thrown', count = 0; try { " + ROUTES[rn].replace("V", "W")
                   + " } catch (e) { count++; r = (e === W) || (e !== e && W !== W) ? (e === 0 ? (1 / e === 1 / W) : true) : 'got ' + typeof e + ' ' + String(e) } r + '|' + count")
            n += 1
            try:
                got = Context(time_limit=10).eval(src)
            except BaseException as e:  # noqa
                got = f"!{type(e).__name__}: {e}"[:120]
            if got != "true|1":
                bad.append((rn, v, src, got))
    return n, bad


@groups.group(id="C07.bounded.thrown-values", prop="C07", kind="B", functions=["microjs.vm:VM._throw", "microjs.vm:VM._rethrow_script_error", "microjs.context:Context._create_eval_function"])
def c07_thrown_values(tier="quick", seed=0):
    """every kind of value (falsy ones, both zeros, NaN, null, undefined, objects by identity) thrown through every route
    script code can be run by (directly, eval, Function, callbacks of built-ins, accessors read by built-ins, conversions,
    call/apply/bind/new, nested combinations) reaches the catch clause exactly once and is the SAME value"""
    import multiprocessing as mp
    names = sorted(ROUTES)
    with mp.get_context("fork").Pool(8) as pool:
        rs = pool.map(_thrown_chunk, [names[i::8] for i in range(8)])
    bad = [b for _, bs in rs for b in bs]
    by = {}
    for rn in names:
        fails = [b for b in bad if b[0] == rn]
        by[rn] = fails
    return [ob(f"C07.bounded.thrown-values.{rn}", not f, "B", f"{len(THROWN)} values" if not f else f"throw {f[0][1]} via {rn}: {f[0][3]}",
               witness=(f[0][2] if f else None), confirmed=True if f else None, domain=len(THROWN)) for rn, f in by.items()]


# ---- bounded: errors raised by built-ins are catchable Error objects of the right kind -------------------------------------
BUILTIN_ERRORS = [
    ("null.x", "TypeError"), ("undefined.x", "TypeError"), ("null.x = 1", "TypeError"), ("undefinedName", "ReferenceError"), ("(1)()", "TypeError"), ("new (1)()", "TypeError"), ("({}).f()", "TypeError"),
    ("new Array(-1)", "RangeError"), ("'a'.repeat(-1)", "RangeError"), ("(1).toFixed(200)", "RangeError"), ("(1).toString(99)", "RangeError"), ("(1).toPrecision(0)", "RangeError"),
    ("JSON.parse('{')", "SyntaxError"), ("JSON.parse('[1, NaN]')", "SyntaxError"), ("JSON.parse('Infinity')", "SyntaxError"), ("JSON.parse('-Infinity')", "SyntaxError"), ("JSON.parse('')", "SyntaxError"),
    ("JSON.parse(\"{'a': 1}\")", "SyntaxError"), ("JSON.parse('[' .repeat(5000))", "SyntaxError"), ("JSON.parse('01')", "SyntaxError"), ("JSON.parse(undefined)", "SyntaxError"),
    ("var c = {}; c.c = c; JSON.stringify(c)", "TypeError"), ("var c = []; c[0] = c; JSON.stringify(c)", "TypeError"),
    ("new RegExp('(')", "SyntaxError"), ("new RegExp('[')", "SyntaxError"), ("'a'.match('(')", "SyntaxError"), ("'a'.search('*')", "SyntaxError"), ("new RegExp('a{2,1}')", "SyntaxError"),
    ("eval('(')", "SyntaxError"), ("eval('1 +')", "SyntaxError"), ("new Function('(')", "SyntaxError"), ("new Function('a b', '1')", "SyntaxError"),
    ("[].reduce(function () {})", "TypeError"), ("[1].map()", "TypeError"), ("[1].forEach(3)", "TypeError"), ("[2, 1].sort(null)", "TypeError"), ("[].filter('f')", "TypeError"),
    ("Object.create(5)", "TypeError"), ("var a = {}, b = Object.create(a); Object.setPrototypeOf(a, b)", "TypeError"),
    ("'abc'.replaceAll(/b/, 'x')", "TypeError"), ("1 instanceof 1", "TypeError"), ("'a' in 'b'", "TypeError"), ("new (() => 1)()", "TypeError"), ("[].push.call({}, 1)", "TypeError"),
    ("var a = [1]; a[5] = 1", "TypeError"), ("new Uint8Array(-1)", "RangeError"), ("new Uint8Array(4).set([1, 2, 3, 4, 5])", "RangeError"), ("new Uint16Array(new ArrayBuffer(3))", "RangeError"),
    ("new Array(4294967296)", "RangeError"), ("var a = []; a.length = -1", "RangeError"), ("'a'.repeat(Infinity)", "RangeError"), ("'ab'.repeat(1e9)", "RangeError"),
]


@groups.group(id="C07.bounded.builtin-errors", prop="C07", kind="B", functions=["microjs.vm:VM._handle_python_exception", "microjs.context:Context"])
def c07_builtin_errors(tier="quick", seed=0):
    """an error raised by a built-in (or by the engine on behalf of an operator) reaches the enclosing catch once, as an object
    that is an instance of its constructor and of Error, with the constructor's name and a string message -- in a plain
    try, inside a callback and inside eval"""
    from microjs import Context
    out = []
    wraps = {"plain": "{X}", "in-callback": "[1].forEach(function () { {X} })", "in-eval": "eval({Q})", "in-function": "(function () { {X} })()"}
    for wn, w in wraps.items():
        bad = None
        for src, kind in BUILTIN_ERRORS:
            import json as _j
            body = w.replace("{X}", src).replace("{Q}", _j.dumps(src))
            prog = ("var n = 0, r = 'no error'; try { " + body + " } catch (e) { n++; r = [e instanceof " + kind + ", e instanceof Error, e.name, typeof e.message, typeof e.stack !== 'function',"
                    " e.toString().indexOf(e.name + ': ') === 0, ('' + e) === e.toString(), e instanceof Object].join() } r + '|' + n")
            try:
                got = Context(time_limit=10, memory_limit=50_000_000).eval(prog)
            except BaseException as e:  # noqa
                got = f"!{type(e).__name__}: {e}"[:120]
            if got != f"true,true,{kind},string,true,true,true,true|1" and bad is None:
                bad = (prog, f"{src}: {got}")
        out.append(ob(f"C07.bounded.builtin-errors.{wn}", bad is None, "B", f"{len(BUILTIN_ERRORS)} error sites" if bad is None else bad[1],
                      witness=(bad[0] if bad else None), confirmed=True if bad else None, domain=len(BUILTIN_ERRORS)))
    return out


# =======================================================================================================================
# K1: what nested code (eval, Function, accessors read by built-ins) left uncaught is thrown again UNCHANGED in the caller
# =======================================================================================================================
@effectful
def spec_throw_recorded(vm, exc):
    """callee contract of VM._throw used here (proved above): records what is thrown"""
    ghost_set("throw.calls", ghost_get("throw.calls", 0) + 1)
    ghost_set("throw.value", exc)
    return None


@effectful
def spec_handle_python_exception(vm, error_type, message):
    ghost_set("hpe.calls", ghost_get("hpe.calls", 0) + 1)
    ghost_set("hpe.type", error_type)
    ghost_set("hpe.message", message)
    return None


def c_rethrow_script_error(vm: Obj("VM"), err: Obj("JSError"), carries: Bool, v: JSVal, msg: Str):
    """VM._rethrow_script_error: an error that carries the value nested code threw re-throws exactly that value -- whatever
    it is: 0, '', null, undefined, false, NaN or an object by identity -- once; an error without a value (a refusal of the
    compiler, a limit of the parser) becomes a script Error with its message, never the host object itself"""
    if carries:
        err.value = v
    else:
        assume(not hasattr(err, "value"))
    err.message = msg
    o = outcome(REAL, vm, err)
    check("never-raises-itself", o[0] == "ret")
    if carries:
        check("thrown-once", ghost_get("throw.calls", 0) == 1 and ghost_get("hpe.calls", 0) == 0)
        check("the-same-value", same_value(ghost_get("throw.value", None), v))
    else:
        check("becomes-a-script-Error", ghost_get("hpe.calls", 0) == 1 and ghost_get("throw.calls", 0) == 0)
        check("with-its-message", ghost_get("hpe.type", None) == "Error" and ghost_get("hpe.message", None) == msg)


def _native_rethrow():
    from microjs.vm import VM
    import pyvc.api as A
    real = VM._rethrow_script_error

    def run(vm, err):
        o1, o2 = VM._throw, VM._handle_python_exception

        def t(self, exc):
            A.GHOST.update({"throw.calls": A.GHOST.get("throw.calls", 0) + 1, "throw.value": exc})

        def h(self, error_type, message):
            A.GHOST.update({"hpe.calls": A.GHOST.get("hpe.calls", 0) + 1, "hpe.type": error_type, "hpe.message": message})
        VM._throw, VM._handle_python_exception = t, h
        try:
            return real(vm, err)
        finally:
            VM._throw, VM._handle_python_exception = o1, o2
    return run


register(c_rethrow_script_error, id="C07.VM._rethrow_script_error", prop="C07", target=method("microjs.vm", "VM._rethrow_script_error"), native=_native_rethrow,
         summaries={"microjs.vm:VM._throw": spec_throw_recorded, "microjs.vm:VM._handle_python_exception": spec_handle_python_exception}, prim_args=False)
