"""C11 - values cross the Python/JavaScript boundary faithfully.
K3: shape of Context.set/get/eval/_to_js/_to_python (conversion applied exactly once on each crossing; fresh
containers).  B: generated JSON-like values (boundary numbers, non-BMP text, nesting, shared sub-objects, non-string
keys), script results, exposed callables, interleavings of set/eval/get."""
from pyvc import structural as _S_
import math, random
from pyvc import groups
from pyvc.groups import ob


@groups.group(id="C11.struct", prop="C11", kind="K3", functions=["microjs.context:Context._to_js", "microjs.context:Context._to_python", "microjs.context:Context.set", "microjs.context:Context.get"])
def c11_struct(tier="quick", seed=0):
    from pyvc import structural as S
    import ast
    out = []
    st = _S_.unparse(S.fn("microjs.context", "Context.set"))
    gt = _S_.unparse(S.fn("microjs.context", "Context.get"))
    ev = _S_.unparse(S.fn("microjs.context", "Context.eval"))
    out.append(ob("C11.struct.set-converts", "self._globals[name] = self._to_js(value)" in st, "K3", "set stores _to_js(value) under the given name"))
    out.append(ob("C11.struct.get-converts", "return self._to_python(value)" in gt and "self._globals.get(name, UNDEFINED)" in gt, "K3", "get returns _to_python(globals[name])"))
    out.append(ob("C11.struct.eval-converts", "return self._to_python(result)" in ev, "K3", "eval returns _to_python(result)"))
    tj = S.fn("microjs.context", "Context._to_js")
    src = _S_.unparse(tj)
    order = [src.find("isinstance(value, bool)"), src.find("isinstance(value, (int, float))")]
    out.append(ob("C11.struct.to_js-bool-before-int", 0 <= order[0] < order[1], "K3", "bool is tested before int (bool is an int subtype)"))
    out.append(ob("C11.struct.to_js-fresh-containers", "arr = JSArray()" in src and ("obj = JSObject()" in src or "obj = JSObject(self._object_prototype)" in src) and ("obj.set(str(k), self._to_js(v))" in src or "obj.set(str(k), self._to_js(v, _memo))" in src), "K3",
                  "lists/dicts are rebuilt into fresh arrays/objects, keys through str()"))
    tp = _S_.unparse(S.fn("microjs.context", "Context._to_python"))
    out.append(ob("C11.struct.to_python-own-data-only", "value._properties.items()" in tp and "_getters" not in tp, "K3", "objects convert to dicts of own data properties"))
    out.append(ob("C11.struct.to_python-fresh", "result: Any = []" in tp and "result = {}" in tp, "K3", "arrays/objects convert into newly allocated lists/dicts"))
    for fn in ("VM._call_function", "VM._call_method", "VM._call_callback"):
        s_ = _S_.unparse(S.fn("microjs.vm", fn))
        ok = "from_python(" in s_ and ("callee(*args)" in s_ or "method(*args)" in s_ or "callback(*args)" in s_)
        out.append(ob(f"C11.struct.native-protocol.{fn.split('.')[-1]}", ok, "K3", "host callables get the arguments positionally in order; results go through from_python"))
    return out


def eq(a, b):
    if isinstance(a, bool) or isinstance(b, bool):
        return type(a) is type(b) and a == b
    if isinstance(a, float) and isinstance(b, float) and math.isnan(a) and math.isnan(b):
        return True
    if isinstance(a, (int, float)) and isinstance(b, (int, float)):
        return a == b and (a != 0 or math.copysign(1, a) == math.copysign(1, b))
    if isinstance(a, list) and isinstance(b, list):
        return len(a) == len(b) and all(eq(x, y) for x, y in zip(a, b))
    if isinstance(a, dict) and isinstance(b, dict):
        return list(a) == list(b) and all(eq(a[k], b[k]) for k in a)
    return type(a) is type(b) and a == b


LEAVES = [None, True, False, 0, 1, -1, 2 ** 31, 2 ** 53, -(2 ** 53), 0.5, -0.0, 1e21, 1e-7, 5e-324, float("inf"), float("-inf"), float("nan"),
          "", "a", "é", "😀", "\ud800", "line\nbreak", "__proto__", "0"]


def gen(r, depth):
    k = r.random()
    if depth <= 0 or k < 0.4:
        return r.choice(LEAVES)
    if k < 0.7:
        return [gen(r, depth - 1) for _ in range(r.randint(0, 4))]
    return {r.choice(["a", "b", "", "é", "k k", "length", "constructor", "0", "__proto__x"]): gen(r, depth - 1) for _ in range(r.randint(0, 4))}


def deep(n):
    v = []
    for _ in range(n):
        v = [v, {"k": 1}]
    return v


def _chunk(args):
    seed, n = args
    from microjs import Context
    r = random.Random(seed)
    bad = []
    cnt = 0
    for i in range(n):
        v = gen(r, 4)
        c = Context(time_limit=5)
        cnt += 1
        try:
            c.set("x", v)
            g = c.get("x")
            e = c.eval("x")
            ok = eq(g, v) and eq(e, v)
            if ok and isinstance(g, (list, dict)):
                # freshness: mutating what came back (or what went in) does not affect the context
                g2 = c.get("x")
                if g2 is g or (isinstance(v, (list, dict)) and g is v):
                    ok = False
                if isinstance(g, list):
                    g.append("MUT")
                else:
                    g["MUT"] = 1
                if isinstance(v, list):
                    v.append("MUT2")
                elif isinstance(v, dict):
                    v["MUT2"] = 1
                ok = ok and not eq(c.get("x"), g) and eq(c.get("x"), g2)
            if not ok:
                bad.append(("set/get/eval", repr(v)[:200], repr(g)[:150] + " / " + repr(e)[:150]))
        except Exception as ex:  # noqa
            bad.append(("set/get/eval", repr(v)[:200], type(ex).__name__ + ": " + str(ex)[:80]))
        if len(bad) > 3:
            break
    return cnt, bad


@groups.group(id="C11.bounded", prop="C11", kind="B", functions=["microjs.context:Context.set", "microjs.context:Context.get", "microjs.context:Context.eval"])
def c11_bounded(tier="quick", seed=0):
    import multiprocessing as mp
    from microjs import Context
    n = 150 if tier == "quick" else 3000
    with mp.get_context("fork").Pool(16) as pool:
        res = pool.map(_chunk, [(seed * 100 + i, n) for i in range(16)])
    out = []
    bad = [b for _, bs in res for b in bs]
    tot = sum(c for c, _ in res)
    out.append(ob("C11.bounded.roundtrip-and-freshness", not bad, "B", f"{tot} values" if not bad else f"{bad[0][1]} -> {bad[0][2]}",
                  witness=(bad[0][1] if bad else None), confirmed=True if bad else None, domain=tot))
    # fixed cases
    fx = []

    def case(name, fn):
        try:
            r = fn()
            if r is not True:
                fx.append((name, repr(r)[:200]))
        except Exception as e:  # noqa
            fx.append((name, type(e).__name__ + ": " + str(e)[:100]))
    c = Context(time_limit=5)
    case("script-results", lambda: eq(c.eval("[undefined, null, [1,[2]], {a:{b:[]}}, 'x', 1.5, true]"), [None, None, [1, [2]], {"a": {"b": []}}, "x", 1.5, True]))
    case("own-data-only", lambda: c.eval("var p = {inherited: 1}; var o = Object.create(p); o.own = 2; Object.defineProperty(o, 'g', {get: function(){ return 3 }}); o") == {"own": 2})
    case("non-str-keys", lambda: c.set("d", {1: "a", None: "b", (1, 2): "c", 2.5: "d"}) or c.eval("Object.keys(d).length") == 4)
    case("deep-nesting", lambda: c.set("dn", deep(60)) or eq(c.get("dn"), deep(60)))
    shared = [1]
    case("shared-subobjects", lambda: c.set("sh", [shared, shared, {"s": shared}]) or eq(c.get("sh"), [[1], [1], {"s": [1]}]))
    case("shared-result", lambda: eq(c.eval("var a=[1]; [a, a, {k: a}]"), [[1], [1], {"k": [1]}]))
    calls = []

    def rec(*a):
        calls.append(a)
        return len(a)
    c.set("rec", rec)
    case("callable-args-in-order", lambda: c.eval("rec(1, 'two', null, undefined, [3], {k: 4}) + rec()") == 6 and len(calls[0]) == 6 and calls[0][0] == 1 and calls[0][1] == "two" and calls[1] == ())
    c.set("ret", lambda k, *rest: {"none": None, "zero": 0, "empty": "", "false": False, "list": [1, [2]], "dict": {"a": [None]}, "nan": float("nan"), "tuple": (1, 2)}[k])
    case("callable-results", lambda: c.eval("[ret('none') === undefined, ret('zero') === 0, ret('empty') === '', ret('false') === false, ret('list')[1][0], ret('dict').a[0] === undefined || ret('dict').a[0] === null, "
                                            "isNaN(ret('nan')), ret('tuple').length, ['zero','empty','false'].map(ret).join('|')]") == [True, True, True, True, 2, True, True, 2, "0||false"])
    case("callable-as-callback", lambda: c.eval("[1,2].map(ret.bind ? function(k){ return ret('zero') } : ret).join(',')") == "0,0")
    case("interleaving", lambda: (c.set("n", 1) or True) and c.eval("n = n + 1; n") == 2 and c.get("n") == 2 and (c.set("n", [c.get("n")]) or True) and c.eval("n.push(5); n.length") == 2 and c.get("n") == [2, 5])
    case("get-missing", lambda: c.get("never_defined") is None)
    case("bool-not-int", lambda: c.set("bb", True) or (c.eval("typeof bb") == "boolean" and c.get("bb") is True))
    for name, why in fx:
        out.append(ob(f"C11.bounded.fixed.{name}", False, "B", why, witness=name, confirmed=True, domain=1))
    names = ["script-results", "own-data-only", "non-str-keys", "deep-nesting", "shared-subobjects", "shared-result", "callable-args-in-order", "callable-results",
             "callable-as-callback", "interleaving", "get-missing", "bool-not-int"]
    for nme in names:
        if nme not in [f[0] for f in fx]:
            out.append(ob(f"C11.bounded.fixed.{nme}", True, "B", "ok", domain=1))
    return out


@groups.group(id="C11.bounded.current-state", prop="C11", kind="B", functions=["microjs.context:Context._to_python", "microjs.context:Context.get", "microjs.context:Context.eval"])
def c11_current_state(tier="quick", seed=0):
    """what get / eval hand to Python is the CURRENT content of the script value, as a structure of its own: a second
    conversion after the script changed the value shows the change, and changing a returned list or dict changes neither
    the script's value nor a structure returned earlier or later"""
    import copy
    from microjs import Context
    shapes = {"flat numbers": ("[3, 1, 2]", "v.push(4)", [3, 1, 2], [3, 1, 2, 4]), "flat strings": ("['a', 'b']", "v[0] = 'z'", ["a", "b"], ["z", "b"]),
              "nested": ("[[1], {k: [2]}]", "v[1].k.push(3); v[0][0] = 9", [[1], {"k": [2]}], [[9], {"k": [2, 3]}]), "object": ("({n: 1, o: {m: 2}})", "v.n = 2; v.o.m = 3; v.added = true", {"n": 1, "o": {"m": 2}}, {"n": 2, "o": {"m": 3}, "added": True}),
              "empty array": ("[]", "v.push(1)", [], [1]), "empty object": ("({})", "v.k = 1", {}, {"k": 1}), "mixed": ("[1, 'a', null, true, [2]]", "v.length = 2", [1, "a", None, True, [2]], [1, "a"])}
    bad = None
    n = 0
    for name, (lit, change, before, after) in shapes.items():
        for how in ("get", "eval", "set-then-get"):
            c = Context(time_limit=10)
            n += 1
            try:
                if how == "set-then-get":
                    c.set("v", copy.deepcopy(before))
                else:
                    c.eval(f"var v = {lit}; 0")
                read = (lambda: c.get("v")) if how != "eval" else (lambda: c.eval("v"))
                r1 = read()
                ok1 = r1 == before
                # the caller owns what it got
                if isinstance(r1, list):
                    r1.append("host")
                elif isinstance(r1, dict):
                    r1["host"] = 1
                r1b = read()
                ok2 = r1b == before and r1b is not r1
                c.eval(change + "; 0")
                r2 = read()
                ok3 = r2 == after
                ok4 = r1b == before            # a structure returned earlier does not follow the script
                why = None if (ok1 and ok2 and ok3 and ok4) else f"first read ok: {ok1}; unaffected by the host's change to the first result: {ok2}; after `{change}`: {r2!r} (expected {after!r}); earlier result unchanged: {ok4}"
            except Exception as e:  # noqa
                why = f"{type(e).__name__}: {str(e)[:80]}"
            if why and bad is None:
                bad = (f"{name} via {how}", why)
    return [ob("C11.bounded.current-state", bad is None, "B", f"{n} (shape, access path) sequences" if bad is None else f"{bad[0]}: {bad[1]}",
               witness=(bad[0] if bad else None), confirmed=True if bad else None, domain=n)]


def _hostargs_chunk(job):
    import itertools
    from microjs import Context
    from microjs.values import UNDEFINED, NULL, JSArray, JSObject
    form, tuples = job
    vals = {"1": "n1", "'a'": "sa", "undefined": "U", "null": "N", "true": "bT", "[7]": "A1", "({k: 1})": "O"}

    def tag(v):
        if v is UNDEFINED:
            return "U"
        if v is NULL:
            return "N"
        if isinstance(v, bool):
            return "bT" if v else "bF"
        if isinstance(v, (int, float)):
            return "n" + str(int(v))
        if isinstance(v, str):
            return "s" + v
        if isinstance(v, JSArray):
            return "A" + str(len(v._elements))
        if isinstance(v, JSObject):
            return "O"
        return "?" + type(v).__name__
    calls = []
    c = Context(time_limit=20)
    c.set("rec", lambda *a: calls.append([tag(x) for x in a]))
    c.eval("var api = {rec: rec, nested: {rec: rec}};")
    bad, n = None, 0
    for tup in tuples:
        args = ", ".join(tup)
        sep = ", " if tup else ""
        if "{Q}" in form:
            import json as _j
            src = form.replace("{Q}", _j.dumps("rec(" + args + ")"))
        else:
            src = form.replace("{A}", args).replace("{,A}", sep + args)
        del calls[:]
        n += 1
        try:
            c.eval(src)
            got = calls[0] if len(calls) == 1 else f"{len(calls)} calls"
        except BaseException as e:  # noqa
            got = f"!{type(e).__name__}: {e}"[:100]
            c = Context(time_limit=20)
            c.set("rec", lambda *a: calls.append([tag(x) for x in a]))
            c.eval("var api = {rec: rec, nested: {rec: rec}};")
        want = [vals[t] for t in tup]
        if got != want and bad is None:
            bad = (src, f"the host function received {got}, the script passed {want}")
    return form, n, bad


HOSTARG_FORMS = ["rec({A})", "api.rec({A})", "api.nested.rec({A})", "api['rec']({A})", "rec.call(null{,A})", "rec.apply(null, [{A}])", "rec.bind(null)({A})", "rec.bind(null{,A})()", "(0, rec)({A})",
                 "(function () { return rec({A}) })()", "[0].forEach(function () { rec({A}) })", "var f = rec; f({A})", "eval({Q})", "new Function('return ' + {Q})()",
                 "(function () { return rec.apply(null, arguments) })({A})", "api.rec.call(api{,A})"]


@groups.group(id="C11.bounded.host-arguments", prop="C11", kind="B", functions=["microjs.vm:VM._call_function", "microjs.vm:VM._call_method", "microjs.vm:VM._make_callable_method"])
def c11_host_arguments(tier="quick", seed=0):
    """an exposed callable receives exactly the arguments the script wrote, in order -- every tuple of up to three values
    from {number, string, undefined, null, boolean, array, object} (undefined and null anywhere, also last and alone),
    through every call form"""
    import itertools, multiprocessing as mp
    vals = ["1", "'a'", "undefined", "null", "true", "[7]", "({k: 1})"]
    tuples = [t for k in range(0, 4) for t in itertools.product(vals, repeat=k)]
    if tier != "thorough":
        tuples = [t for t in tuples if len(t) < 3 or "undefined" in t or "null" in t]
    with mp.get_context("fork").Pool(8) as pool:
        res = pool.map(_hostargs_chunk, [(f, tuples) for f in HOSTARG_FORMS])
    return [ob(f"C11.bounded.host-arguments.{i:02d}", bad is None, "B", f"{form}: {n} argument tuples" if bad is None else f"{bad[0]}: {bad[1]}",
               witness=(bad[0] if bad else None), confirmed=True if bad else None, domain=n) for i, (form, n, bad) in enumerate(res)]


@groups.group(id="C11.struct.process-state", prop="C11", kind="K3", functions=["microjs (module-level state)"])
def c11_process_state(tier="quick", seed=0):
    """a conversion depends on the value converted only: no memo, cache or default-argument container survives from one
    crossing of the boundary to the next (the analysis of C12)"""
    from contracts.C12_context import process_state
    return process_state("C11", tier, seed)


# =======================================================================================================================
# K1: the scalar part of the boundary, for every Python / JavaScript scalar (unbounded integers, every float incl. NaN,
# infinities and -0, every string) and every context
# =======================================================================================================================
from pyvc.api import *      # noqa: E402
from microjs.values import UNDEFINED, NULL      # noqa: E402


def _is_py_scalar(v):
    return v is None or isinstance(v, bool) or isinstance(v, (int, float)) or isinstance(v, str)


def c_to_js_scalar(ctx: Obj("Context"), v: PyVal):
    """_to_js on a Python scalar: None becomes null; booleans, integers, floats and strings cross unchanged -- the same
    value of the same type (True stays a boolean and does not become 1, 1 does not become 1.0) -- and the heap is
    untouched"""
    assume(_is_py_scalar(v))
    snap = heap_snapshot()
    r = outcome(REAL, ctx, v)
    check("never-raises", r[0] == "ret")
    if v is None:
        check("None-becomes-null", same_ref(r[1], NULL))
    else:
        check("scalar-unchanged", same_value(r[1], v))
        check("type-unchanged", isinstance(r[1], bool) == isinstance(v, bool) and isinstance(r[1], int) == isinstance(v, int)
              and isinstance(r[1], float) == isinstance(v, float) and isinstance(r[1], str) == isinstance(v, str))
    check("frame.nothing-changed", heap_unchanged(snap))


def c_to_python_scalar(ctx: Obj("Context"), v: JSPrim):
    """_to_python on a JavaScript primitive: undefined and null become None; booleans, numbers and strings cross
    unchanged (same value, same type)"""
    snap = heap_snapshot()
    r = outcome(REAL, ctx, v)
    check("never-raises", r[0] == "ret")
    if v is UNDEFINED or v is NULL:
        check("undefined-and-null-become-None", r[1] is None)
    else:
        check("scalar-unchanged", same_value(r[1], v))
        check("type-unchanged", isinstance(r[1], bool) == isinstance(v, bool) and isinstance(r[1], int) == isinstance(v, int)
              and isinstance(r[1], float) == isinstance(v, float) and isinstance(r[1], str) == isinstance(v, str))
    check("frame.nothing-changed", heap_unchanged(snap))


def c_set_scalar(ctx: Obj("Context"), name: Str, v: PyVal):
    """set(name, v): exactly the global `name` is (re)bound, to the converted value; every other global of this context
    and every other object is unchanged"""
    assume(_is_py_scalar(v))
    snap = heap_snapshot()
    g = ctx._globals
    r = outcome(REAL, ctx, name, v)
    check("never-raises", r[0] == "ret" and r[1] is None)
    if v is None:
        check("bound-to-null", dict_after_store(snap, g, name, NULL))
    else:
        check("bound-to-the-value", dict_after_store(snap, g, name, v))
    check("frame.only-this-global", heap_unchanged(snap, (g, "dict")))


def c_get_scalar(ctx: Obj("Context"), name: Str):
    """get(name): the Python image of the global (None when it is absent, undefined or null); reading changes nothing"""
    snap = heap_snapshot()
    g = ctx._globals
    assume(name not in g or _is_js_scalar(g[name]))
    r = outcome(REAL, ctx, name)
    check("never-raises", r[0] == "ret")
    if name not in g or g[name] is UNDEFINED or g[name] is NULL:
        check("absent-undefined-null-read-as-None", r[1] is None)
    else:
        check("value-unchanged", same_value(r[1], g[name]))
    check("frame.nothing-changed", heap_unchanged(snap))


def _is_js_scalar(v):
    return v is UNDEFINED or v is NULL or isinstance(v, bool) or isinstance(v, (int, float)) or isinstance(v, str)


def c_set_get_roundtrip(ctx: Obj("Context"), name: Str, other: Str, v: PyVal):
    """lemma over the real functions: get(name) after set(name, v) is v, and another global reads as before"""
    assume(_is_py_scalar(v))
    assume(other != name)
    g = ctx._globals
    assume(other not in g or _is_js_scalar(g[other]))
    before = outcome(_ctx_get(), ctx, other)
    outcome(REAL, ctx, name, v)
    after = outcome(_ctx_get(), ctx, name)
    after_other = outcome(_ctx_get(), ctx, other)
    check("reads-back", after[0] == "ret" and ((v is None and after[1] is None) or (v is not None and same_value(after[1], v))))
    check("other-global-unaffected", before[0] == "ret" and after_other[0] == "ret" and same_value(before[1], after_other[1]))


def _ctx_get():
    from microjs.context import Context
    return Context.get


def _native_ctx(name):
    def make():
        from microjs.context import Context
        return getattr(Context, name)
    return make


register(c_to_js_scalar, id="C11.Context._to_js.scalars", prop="C11", target=method("microjs.context", "Context._to_js"), native=_native_ctx("_to_js"))
register(c_to_python_scalar, id="C11.Context._to_python.scalars", prop="C11", target=method("microjs.context", "Context._to_python"), native=_native_ctx("_to_python"))
register(c_set_scalar, id="C11.Context.set.scalars", prop="C11", target=method("microjs.context", "Context.set"), native=_native_ctx("set"), heap_inputs=True)
register(c_get_scalar, id="C11.Context.get.scalars", prop="C11", target=method("microjs.context", "Context.get"), native=_native_ctx("get"), heap_inputs=True)
register(c_set_get_roundtrip, id="C11.Context.set-get.roundtrip", prop="C11", target=method("microjs.context", "Context.set"), native=_native_ctx("set"), heap_inputs=True)


# ---- fixed probes (regressions of repaired defects; known deviations are listed in /verif/known_findings.json) ---------------
def _cyclic_input(Context):
    """x = [1]; cyc = [1, 2]; cyc.append(cyc): set keeps sharing and cycles, get returns the same shape"""
    c = Context()
    x, cyc = [1], [1, 2]
    cyc.append(cyc)
    c.set("sh", [x, x])
    c.set("cy", cyc)
    r = c.get("cy")
    return f"{c.eval('sh[0] === sh[1]')} {c.eval('cy[2] === cy && cy.length === 3')} {r[2] is r}"


def _tuple_input(Context):
    """ctx.set("t", (1, (2, 3)))"""
    c = Context()
    c.set("t", (1, (2, 3)))
    return c.eval("JSON.stringify(t)")


def _deep_nesting(Context):
    """a 5000-deep list given to set, a 5000-deep array returned by eval"""
    c = Context()
    d = []
    for _ in range(5000):
        d = [d]
    out = []
    for f in (lambda: c.set("deep", d), lambda: c.eval("var a = []; for (var i = 0; i < 5000; i++) a = [a]; a")):
        try:
            f()
            out.append("ok")
        except Exception as e:  # noqa
            out.append(type(e).__name__)
    return " ".join(out)


def _nested_none(Context):
    """a host function returning [None, {"k": None}] and one returning None"""
    c = Context()
    c.set("h", lambda: [None, {"k": None}])
    c.set("n", lambda: None)
    c.set("d", lambda: {"a": None, "inner": {"c": None, "l": [None, {"e": None}]}, "t": (None, 1)})
    return c.eval("var v = h(), w = d(); [v[0] === null, v[1].k === null, n() === undefined, w.a === null && w.inner.c === null && w.inner.l[0] === null && w.inner.l[1].e === null && w.t[0] === null,"
                  " JSON.stringify(w) === '{\"a\":null,\"inner\":{\"c\":null,\"l\":[null,{\"e\":null}]},\"t\":[null,1]}']")


PROBES_C11 = [
    ("cyclic-and-shared-input", _cyclic_input, "True True True"),
    ("tuple-input", _tuple_input, "[1,[2,3]]"),
    ("deep-nesting-is-a-JSError", _deep_nesting, "JSError JSError"),
    ("nested-None-from-a-callable", _nested_none, [True, True, True, True, True]),
]
groups.register_probes("C11", PROBES_C11)
