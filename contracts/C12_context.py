"""C12 - a context keeps its own state: persistent, isolated, usable after errors.
K3: no shared mutable module/class state; built-ins are constructed per context; one globals dictionary is shared by
identity with every VM of the context; a fresh VM per eval and _current_vm reset on every exit.
B: exhaustive short histories over two contexts against a one-dictionary-per-context model."""
from pyvc import structural as _S_
from pyvc import groups
from pyvc.groups import ob

MUTATORS = {"append", "extend", "insert", "pop", "remove", "clear", "update", "setdefault", "add", "discard", "popitem", "sort", "reverse", "__setitem__"}


@groups.group(id="C12.struct", prop="C12", kind="K3", functions=["microjs.context:Context", "microjs (module-level state)"])
def c12_struct(tier="quick", seed=0):
    from pyvc import structural as S
    import ast
    out = []
    src = S.source()
    # 1. module-level and class-level bindings to mutable containers are never mutated; no caches
    n_bind = 0
    all_classes = set()
    for mod, mi in src.modules.items():
        all_classes.update(n.name for n in ast.walk(mi.tree) if isinstance(n, ast.ClassDef) and not any(getattr(b, "id", "") in ("Enum", "IntEnum", "Exception") for b in n.bases))
    for mod, mi in src.modules.items():
        tree = mi.tree
        mutable = {}          # name -> lineno  (module-level), "Class.name" for class level
        for st in tree.body:
            targets = []
            if isinstance(st, ast.Assign):
                targets = [(t.id, st.value) for t in st.targets if isinstance(t, ast.Name)]
            elif isinstance(st, ast.AnnAssign) and isinstance(st.target, ast.Name) and st.value is not None:
                targets = [(st.target.id, st.value)]
            for name, val in targets:
                n_bind += 1
                if isinstance(val, (ast.List, ast.Dict, ast.Set, ast.ListComp, ast.DictComp, ast.SetComp)) or \
                        (isinstance(val, ast.Call) and getattr(val.func, "id", "") in ("list", "dict", "set", "defaultdict", "OrderedDict", "bytearray")):
                    mutable[name] = st.lineno
                elif isinstance(val, ast.Call) and isinstance(val.func, ast.Name) and val.func.id in all_classes and val.func.id not in ("JSUndefined", "JSNull"):
                    # a module-level INSTANCE of a class of the package (e.g. a shared empty array): an object scripts can
                    # reach and change, one for the whole process
                    out.append(ob(f"C12.struct.module-state.{mod.split('.')[-1]}.{name}", False, "K3",
                                  f"module-level instance {name} = {val.func.id}(...) ({mod}:{st.lineno}) is shared by every context of the process",
                                  witness=f"one context changes the object bound to {name}, another observes it"))
            if isinstance(st, ast.ClassDef):
                is_dc = any((getattr(d, "id", None) or getattr(getattr(d, "func", None), "id", None)) == "dataclass" for d in st.decorator_list)
                for cst in st.body:
                    tv = None
                    if isinstance(cst, ast.Assign) and len(cst.targets) == 1 and isinstance(cst.targets[0], ast.Name):
                        tv = (cst.targets[0].id, cst.value)
                    elif isinstance(cst, ast.AnnAssign) and isinstance(cst.target, ast.Name) and cst.value is not None and not is_dc:
                        tv = (cst.target.id, cst.value)
                    if tv and (isinstance(tv[1], (ast.List, ast.Dict, ast.Set)) or (isinstance(tv[1], ast.Call) and getattr(tv[1].func, "id", "") in ("list", "dict", "set"))):
                        out.append(ob(f"C12.struct.class-state.{mod.split('.')[-1]}.{st.name}.{tv[0]}", False, "K3",
                                      f"class-level mutable attribute {st.name}.{tv[0]} (shared by all instances / contexts) at {mod}:{cst.lineno}",
                                      witness=f"two contexts both reaching {st.name}.{tv[0]}"))
        for name, line in mutable.items():
            muts = []
            for n in ast.walk(tree):
                if isinstance(n, ast.Call) and isinstance(n.func, ast.Attribute) and n.func.attr in MUTATORS and isinstance(n.func.value, ast.Name) and n.func.value.id == name:
                    muts.append(n.lineno)
                if isinstance(n, ast.Subscript) and isinstance(n.ctx, (ast.Store, ast.Del)) and isinstance(n.value, ast.Name) and n.value.id == name:
                    muts.append(n.lineno)
                if isinstance(n, ast.Global) and name in n.names:
                    muts.append(n.lineno)
            out.append(ob(f"C12.struct.module-state.{mod.split('.')[-1]}.{name}", not muts, "K3",
                          f"module-level container {name} ({mod}:{line}) mutated at lines {muts}" if muts else f"module-level container {name} is never mutated"))
        for n in ast.walk(tree):
            if isinstance(n, ast.Global):
                out.append(ob(f"C12.struct.global-stmt.{mod.split('.')[-1]}.L{n.lineno}", False, "K3", f"`global {n.names}` at {mod}:{n.lineno}"))
            if isinstance(n, ast.FunctionDef):
                for d in n.decorator_list:
                    dn = _S_.unparse(d)
                    if "cache" in dn:
                        out.append(ob(f"C12.struct.cache.{mod.split('.')[-1]}.{n.name}", False, "K3", f"@{dn} on {n.name} shares results between contexts ({mod}:{n.lineno})",
                                      witness="one context modifies the cached built-in, another observes it"))
                for dflt in n.args.defaults + n.args.kw_defaults:
                    if isinstance(dflt, (ast.List, ast.Dict, ast.Set, ast.ListComp, ast.DictComp, ast.SetComp)) or \
                            (isinstance(dflt, ast.Call) and getattr(dflt.func, "id", "") in ("list", "dict", "set", "defaultdict", "OrderedDict", "bytearray")):
                        out.append(ob(f"C12.struct.mutable-default.{mod.split('.')[-1]}.{n.name}", False, "K3", f"mutable default argument in {n.name} ({mod}:{n.lineno})"))
    # 1b. nothing is stored on a class object (or on a function object) at run time: such an attribute is one value for
    # the whole process, whatever context wrote it last
    class_names = set()
    for mod, mi in src.modules.items():
        class_names.update(n.name for n in ast.walk(mi.tree) if isinstance(n, ast.ClassDef))
    func_names = set()
    for mod, mi in src.modules.items():
        func_names.update(n.name for n in mi.tree.body if isinstance(n, ast.FunctionDef))
    n_attr = 0
    for mod, mi in src.modules.items():
        for f in ast.walk(mi.tree):
            if not isinstance(f, (ast.FunctionDef, ast.Lambda)):
                continue
            for n in ast.walk(f):
                tgts = []
                if isinstance(n, ast.Assign):
                    tgts = list(n.targets)
                elif isinstance(n, (ast.AugAssign, ast.AnnAssign)):
                    tgts = [n.target]
                elif isinstance(n, ast.NamedExpr):
                    tgts = [n.target]
                elif isinstance(n, ast.Call) and isinstance(n.func, ast.Name) and n.func.id == "setattr" and n.args:
                    tgts = [ast.Attribute(value=n.args[0], attr="<setattr>", ctx=ast.Store())]
                flat = []
                for t_ in tgts:
                    flat.extend(t_.elts if isinstance(t_, (ast.Tuple, ast.List)) else [t_])
                for t_ in flat:
                    base = t_.value if isinstance(t_, (ast.Attribute, ast.Subscript)) else None
                    # X.attr = ... / X.attr[k] = ...  with X a class of the package, cls, type(self), self.__class__, or a function
                    while isinstance(base, (ast.Attribute, ast.Subscript)) and not (isinstance(base, ast.Attribute) and base.attr == "__class__"):
                        base = base.value
                    if base is None:
                        continue
                    n_attr += 1
                    txt = _S_.unparse(base)
                    on_class = (isinstance(base, ast.Name) and (base.id in class_names or base.id == "cls" or base.id in func_names)) or \
                        txt.startswith("type(") or txt.endswith(".__class__")
                    # (the singleton idiom of the immutable undefined/null values: `cls._instance = super().__new__(cls)` in __new__)
                    singleton = isinstance(f, ast.FunctionDef) and f.name == "__new__" and isinstance(n, ast.Assign) and _S_.unparse(n.value) == "super().__new__(cls)"
                    if on_class and not singleton:
                        out.append(ob(f"C12.struct.class-state.{mod.split('.')[-1]}.{txt}.L{n.lineno}", False, "K3",
                                      f"{_S_.unparse(t_)} is assigned at run time ({mod}:{n.lineno}): one value for the whole process, shared by all contexts",
                                      witness="two contexts: the second one sees (or overwrites) what the first one stored there"))
    out.append(ob("C12.struct.class-state.scan", n_attr > 0, "K3", f"{n_attr} attribute/element assignments inspected: none stores on a class, a function or type(self)"))
    out.append(ob("C12.struct.inventory", n_bind > 0, "K3", f"{n_bind} module-level bindings inspected"))
    # 2. persistence and recovery in Context.eval
    ev = _S_.unparse(S.fn("microjs.context", "Context.eval"))
    nv0 = _S_.unparse(S.fn("microjs.context", "Context._nested_vm"))
    fresh = "vm = VM(memory_limit=self.memory_limit, time_limit=self.time_limit)"
    via_nested = "vm = self._nested_vm()" in ev
    out.append(ob("C12.struct.eval-fresh-vm", fresh in ev or (via_nested and fresh in nv0), "K3", "Context.eval builds a fresh VM (directly or through _nested_vm)"))
    out.append(ob("C12.struct.eval-shares-globals", "vm.globals = self._globals" in ev or (via_nested and "vm.globals = self._globals" in nv0), "K3",
                  "the VM's globals are the context's dictionary (identity)"))
    # (by syntax tree, not by text: the names of the locals are the maintainer's business)
    evf = S.fn("microjs.context", "Context.eval")
    restores = False
    for t_ in ast.walk(evf):
        if isinstance(t_, ast.Try) and t_.finalbody:
            for st in t_.finalbody:
                if isinstance(st, ast.Assign) and len(st.targets) == 1 and isinstance(st.targets[0], ast.Attribute) and st.targets[0].attr == "_current_vm":
                    v = st.value
                    if isinstance(v, ast.Constant) and v.value is None:
                        restores = True
                    elif isinstance(v, ast.Name):
                        saved = [n for n in ast.walk(evf) if isinstance(n, ast.Assign) and len(n.targets) == 1 and isinstance(n.targets[0], ast.Name) and n.targets[0].id == v.id
                                 and isinstance(n.value, ast.Attribute) and n.value.attr == "_current_vm" and n.lineno < t_.lineno]
                        restores = len(saved) == 1
    out.append(ob("C12.struct.eval-resets-current-vm", restores, "K3", "_current_vm is put back (to None, or to the evaluation that called the host function) on every exit of eval"))
    nv = _S_.unparse(S.fn("microjs.context", "Context._nested_vm"))
    out.append(ob("C12.struct.nested-shares-globals", "vm.globals = self._globals" in nv, "K3", "nested eval / Function / comparators share the same dictionary"))
    init = _S_.unparse(S.fn("microjs.context", "Context.__init__"))
    out.append(ob("C12.struct.init-own-globals", "self._globals: Dict[str, JSValue] = {}" in init and "self._setup_globals()" in init, "K3", "each context creates its own globals and built-ins"))
    # 3. all _create_* are instance methods (per-context construction), none static/class/cached
    ctx_cls, _ = S.source().class_info("Context")
    bad = [m for m, node in ctx_cls["methods"].items() if m.startswith("_create_") and (node.decorator_list or not node.args.args or node.args.args[0].arg != "self")]
    out.append(ob("C12.struct.builtins-per-context", not bad, "K3", f"_create_* methods that are not plain instance methods: {bad}"))
    return out


def process_state(prop, tier="quick", seed=0):
    """the process-level-state obligations of c12_struct, renamed for another property that also needs "nothing
    survives in the process from one context / evaluation to the next" """
    out = []
    for o in c12_struct(tier, seed):
        if any(k in o["id"] for k in (".module-state.", ".class-state.", ".global-stmt.", ".cache", ".decorator", ".mutable-default.")):
            o = dict(o)
            o["id"] = o["id"].replace("C12.", prop + ".", 1)
            o["finding_key"] = o["id"]
            out.append(o)
    out.append(ob(f"{prop}.struct.process-state.inventory", len(out) > 0, "K3", f"{len(out)} module/class-level bindings and run-time stores inspected"))
    return out


OPS = {
    "define": ("eval", "var a = 1; function f(){ return a }", None),
    "assign": ("eval", "a = (typeof a === 'number' ? a : 0) + 1; a", "inc"),
    "read": ("eval", "typeof a === 'number' ? a : -1", "read"),
    "mutate-builtin": ("eval", "JSON.zz = (JSON.zz || 0) + 1; Math.mark = 7; Object.prototype.pp = 1; 0", None),
    "see-builtin": ("eval", "var r0 = [JSON.zz === undefined ? 0 : JSON.zz, Math.mark === undefined ? 0 : Math.mark, ({}).pp === undefined ? 0 : 1]; r0", "builtin"),
    "throw": ("eval", "a = 5; throw new Error('x')", "err5"),
    "syntax-error": ("eval", "a = 9; var = ;", "synerr"),
    "loop-forever": ("eval", "a = 6; while (true) {}", "err6"),
    "recurse-forever": ("eval", "a = 7; (function f(){ return f() })()", "err7"),
    "nested-eval-define": ("eval", "eval('var a = 40'); new Function('b = 2')(); a", "def40"),
    "try-timeout-inside": ("eval", "function g(){ try { while(true){} } catch (e) { } } g()", "errkeep"),
    "return-in-try": ("eval", "function h(){ try { return 1 } catch (e) {} } h(); a = (typeof a === 'number' ? a : 0)", "keep"),
    # a function kept by the context runs a regex literal again after the deadline of the evaluation that defined it has
    # passed (the history sleeps before every call-regex-fn): nothing of the old evaluation may stop the new one
    "define-regex-fn": ("eval", "function rx(s){ return /(a*)*b/.test(s) } rx('aaaaaa')", "rxdef"),
    "call-regex-fn": ("eval", "typeof rx === 'function' ? rx('aaaaaa') : 'none'", "rxcall"),
    "set": ("set", None, None), "get": ("get", None, None),
}


def _history(args):
    hist = args
    from microjs import Context
    from microjs.errors import JSError
    ctxs = [Context(time_limit=0.15, memory_limit=200000), Context(time_limit=0.15)]
    model = [{"a": None, "zz": 0, "mark": 0, "pp": 0}, {"a": None, "zz": 0, "mark": 0, "pp": 0}]
    for step, (ci, op) in enumerate(hist):
        c, m = ctxs[ci], model[ci]
        kind, src, _ = OPS[op]
        try:
            if kind == "set":
                c.set("a", 100 + step)
                m["a"] = 100 + step
                continue
            if kind == "get":
                got = c.get("a")
                if got != m["a"]:
                    return (hist, step, f"get('a') = {got!r}, model {m['a']!r}")
                continue
            err = None
            if op == "call-regex-fn":
                import time as _t
                _t.sleep(0.2)
            t_eval = 0.0
            try:
                import time as _t2
                t_eval = _t2.time()
                r = c.eval(src)
            except JSError as e:
                r, err = None, type(e).__name__
                if err == "TimeLimitError" and op not in ("loop-forever", "recurse-forever", "try-timeout-inside") and _t2.time() - t_eval >= 0.14:
                    return None     # a terminating step really ran out of its 0.15 s (overloaded machine): the history is inconclusive
            except BaseException as e:  # noqa
                return (hist, step, f"host exception {type(e).__name__}: {str(e)[:60]}")
            if op == "define":
                m["a"] = 1
            elif op == "assign":
                m["a"] = (m["a"] if isinstance(m["a"], int) else 0) + 1
                if r != m["a"]:
                    return (hist, step, f"assign returned {r!r}, model {m['a']!r}")
            elif op == "read":
                want = m["a"] if isinstance(m["a"], int) else -1
                if r != want:
                    return (hist, step, f"read returned {r!r}, model {want!r}")
            elif op == "mutate-builtin":
                m["zz"] += 1
                m["mark"], m["pp"] = 7, 1
            elif op == "see-builtin":
                if r != [m["zz"], m["mark"], m["pp"]]:
                    return (hist, step, f"built-ins seen as {r!r}, model {[m['zz'], m['mark'], m['pp']]}")
            elif op in ("throw", "loop-forever", "recurse-forever"):
                m["a"] = {"throw": 5, "loop-forever": 6, "recurse-forever": 7}[op]
                if err is None:
                    return (hist, step, f"{op} did not raise (returned {r!r})")
            elif op == "syntax-error":
                if err != "JSSyntaxError":
                    return (hist, step, f"syntax error reported as {err}")
            elif op == "nested-eval-define":
                m["a"] = 40
                if r != 40:
                    return (hist, step, f"nested eval define returned {r!r}")
            elif op == "try-timeout-inside":
                if err != "TimeLimitError":
                    return (hist, step, f"loop inside try ended with {err} / {r!r}")
            elif op == "define-regex-fn":
                m["rx"] = True
                if r is not False:
                    return (hist, step, f"define-regex-fn returned {r!r} / {err}")
            elif op == "call-regex-fn":
                want = False if m.get("rx") else "none"
                if r != want or err is not None:
                    return (hist, step, f"call-regex-fn gave {r!r} / {err}, expected {want!r}")
            elif op == "return-in-try":
                m["a"] = m["a"] if isinstance(m["a"], int) else 0
        except BaseException as e:  # noqa
            return (hist, step, f"harness error {type(e).__name__}: {e}")
    return None


@groups.group(id="C12.bounded.histories", prop="C12", kind="B", functions=["microjs.context:Context.eval", "microjs.context:Context.set", "microjs.context:Context.get"])
def c12_histories(tier="quick", seed=0):
    import itertools, multiprocessing as mp, random
    rng = random.Random(seed)
    ops = list(OPS)
    alphabet = [(ci, op) for ci in (0, 1) for op in ops]
    hists = [list(h) for h in itertools.product(alphabet, repeat=2)]
    extra = 1500 if tier == "quick" else 20000
    for _ in range(extra):
        hists.append([rng.choice(alphabet) for _ in range(rng.choice((3, 4, 5)))])
    with mp.get_context("fork").Pool(16) as pool:
        res = pool.map(_history, hists, chunksize=8)
    bad = [r for r in res if r is not None]
    by = {}
    for h in hists:
        for _, op in h:
            by.setdefault(op, [0, None])[0] += 1
    for hist, step, why in bad:
        op = hist[step][1]
        if by[op][1] is None:
            by[op][1] = (hist, step, why)
    return [ob(f"C12.bounded.histories.{op}", b is None, "B", f"appears in {n} history steps" if b is None else f"step {b[1]} of {b[0]}: {b[2]}",
               witness=(repr(b[0]) if b else None), confirmed=True if b else None, domain=n) for op, (n, b) in sorted(by.items())]


# ---- bounded: what one context adds to its built-ins is invisible in another, whichever was created first -----------------
CREATORS = ["[1]", "[1].slice()", "[1].map(function (x) { return x; })", "[1].concat([2])", "[3, 1].sort()", "[1, 2].filter(function () { return true; })", "'a,b'.split(',')",
            "JSON.parse('[1]')", "JSON.parse('{\"a\": 1}')", "Object.keys({a: 1})", "Object.values({a: 1})", "Object.entries({a: 1})[0]", "new Array(2)", "Array(2)",
            "'ab'.match(/a/)", "/a/.exec('a')", "given", "({})", "new Object()", "Object.create({})", "Object.assign({}, {a: 1})", "(function () {})", "(() => 1)",
            "new Function('return 1')", "(function () {}).bind(null)", "new Error('x')", "new TypeError('x')", "/a/", "new RegExp('a')", "new Uint8Array(1)", "'str'", "(5)", "true",
            "Math", "JSON", "Object", "Array", "String", "Number", "Function", "RegExp", "Error", "parseInt", "[].push", "'a'.slice", "Math.max", "Object.keys", "JSON.parse",
            "Object.prototype", "Array.prototype", "Function.prototype", "String.prototype", "Error.prototype", "RegExp.prototype"]
WRITES = "".join("try { " + w + " } catch (e) { }; " for w in [
    "Array.prototype.tag = 'w'", "Object.prototype.tag = 'w'", "String.prototype.tag = 'w'", "Function.prototype.tag = 'w'", "RegExp.prototype.tag = 'w'",
    "Error.prototype.tag = 'w'", "Number.prototype.tag = 'w'", "Math.tag = 'w'", "JSON.tag = 'w'", "Object.tag = 'w'", "Array.tag = 'w'", "String.tag = 'w'",
    "Math.max = function () { return 'w'; }", "Object.keys = function () { return 'w'; }", "JSON.parse.tag = 'w'", "parseInt.tag = 'w'", "globalTag = 'w'"]) + "0"


@groups.group(id="C12.bounded.isolation", prop="C12", kind="B", functions=["microjs.context:Context"])
def c12_isolation(tier="quick", seed=0):
    """two contexts in one process, the writer created before or after the reader: nothing the writer adds to (or
    replaces in) its built-in objects and prototypes shows on any object the reader creates or reaches"""
    from microjs import Context
    out = []
    for order in ("writer-first", "reader-first", "third-context-between"):
        if order == "writer-first":
            w, r = Context(time_limit=10), Context(time_limit=10)
        elif order == "reader-first":
            r, w = Context(time_limit=10), Context(time_limit=10)
        else:
            r = Context(time_limit=10)
            w = Context(time_limit=10)
            Context(time_limit=10).eval("1")
        r.set("given", [1, {"a": 1}])
        bad = None
        try:
            r.eval("var warm = [1].slice(); 0")
            w.set("given", [1])
            w.eval(WRITES)
            for e in CREATORS:
                got = r.eval(f"var v = {e}; (v === undefined || v === null ? 'undefined' : String(v.tag)) + '|' + typeof globalTag + '|' + Math.max(1, 2) + '|' + Object.keys({{a: 1}}).length")
                if got != "undefined|undefined|2|1" and bad is None:
                    bad = (e, got)
        except Exception as ex:  # noqa
            bad = bad or ("<harness>", type(ex).__name__ + ": " + str(ex)[:80])
        out.append(ob(f"C12.bounded.isolation.{order}", bad is None, "B", f"{len(CREATORS)} objects created or reached in the reader" if bad is None else f"{bad[0]} in the reader shows {bad[1]!r}",
                      witness=(f"c2.eval({WRITES[:60]!r}...); c1.eval(\"({bad[0]}).tag\")" if bad else None), confirmed=True if bad else None, domain=len(CREATORS)))
    return out


# ---- bounded: every evaluation of a creating expression yields a fresh object -----------------------------------------
FRESH = ["new Function('a', 'return a + 1')", "new Function('return 1')", "(function () { return 1; })", "(() => 1)", "/ab+c/g", "new RegExp('ab+c', 'g')", "({})", "[]",
         "new Object()", "Object.create(null)", "new Error('x')", "new Uint8Array(2)", "new ArrayBuffer(4)", "(function () {}).bind(null)", "eval('({})')", "eval('(function () {})')",
         "Object.keys({a: 1})", "'a,b'.split(',')", "JSON.parse('{\"a\": [1]}')", "JSON.parse('[]')", "JSON.parse('{}')", "JSON.parse('[[]]')[0]", "(function () { return arguments; })()", "(function () { return arguments; })(1)", "[1, 2].map(function (x) { return x; })", "Object.assign({}, {a: 1})"]


@groups.group(id="C12.bounded.fresh-objects", prop="C12", kind="B", functions=["microjs.context:Context.eval"])
def c12_fresh(tier="quick", seed=0):
    """the same creating expression evaluated twice -- in one eval, in two evals of one context, after an eval that
    threw -- gives two distinct objects whose properties (and prototype objects) are independent"""
    from microjs import Context
    out = []
    for i, e in enumerate(FRESH):
        probes = [
            ("same-eval", [f"var a = {e}, b = {e}; a.mark = 1; (a !== b) + '|' + (b.mark === undefined)"], "true|true"),
            ("two-evals", [f"var a = {e}; a.mark = 1; 0", f"var b = {e}; (a !== b) + '|' + (b.mark === undefined)"], "true|true"),
            ("after-throw", [f"var a = {e}; a.mark = 1; if (a.prototype) a.prototype.m = 1; throw 1", f"var b = {e}; (b.mark === undefined) + '|' + (!b.prototype || b.prototype.m === undefined)"], "true|true"),
            ("prototype", [f"var a = {e}, b = {e}; if (a.prototype) {{ a.prototype.m = 1; }} (!b.prototype || (b.prototype.m === undefined && a.prototype !== b.prototype)) + ''"], "true"),
            # the SAME expression site evaluated twice (a literal in a function body / a loop body)
            ("same-site-function", [f"function mk() {{ return {e}; }} var a = mk(), b = mk(); a.mark = 1; if (a.lastIndex !== undefined) a.lastIndex = 1; "
                                    f"(a !== b) + '|' + (b.mark === undefined) + '|' + (b.lastIndex === undefined || b.lastIndex === 0)"], "true|true|true"),
            ("same-site-loop", [f"var made = []; for (var i = 0; i < 2; i++) {{ made.push({e}); }} made[0].mark = 1; (made[0] !== made[1]) + '|' + (made[1].mark === undefined)"], "true|true"),
            ("same-site-two-evals", [f"function mk() {{ return {e}; }} var a = mk(); a.mark = 1; if (a.push) a.push(9); 0", "var b = mk(); (a !== b) + '|' + (b.mark === undefined) + '|' + (!b.push || b.length !== a.length)"], "true|true|true"),
        ]
        bad = None
        for pname, srcs, want in probes:
            c = Context(time_limit=5)
            got = None
            for s_ in srcs:
                try:
                    got = c.eval(s_)
                except Exception as ex:  # noqa
                    got = "!" + type(ex).__name__
            if got != want and bad is None:
                bad = (pname, srcs, got)
        out.append(ob(f"C12.bounded.fresh-objects.{i:02d}", bad is None, "B", f"{e}: fresh in {len(probes)} settings" if bad is None else f"{e} [{bad[0]}]: {bad[2]!r}",
                      witness=("; ".join(bad[1]) if bad else None), confirmed=True if bad else None, domain=len(probes)))
    return out


@groups.group(id="C12.bounded.current-state", prop="C12", kind="B", functions=["microjs.context:Context.get", "microjs.context:Context.eval"])
def c12_current_state(tier="quick", seed=0):
    """the state a context keeps is the script's state: what get / eval return follows later changes made by the script and is
    not a copy remembered from an earlier call (the sequences of C11)"""
    from contracts.C11_boundary import c11_current_state
    out = []
    for o in c11_current_state(tier, seed):
        o = dict(o)
        o["id"] = o["id"].replace("C11.", "C12.", 1)
        o["finding_key"] = o["id"]
        out.append(o)
    return out


# ---- fixed probes (regressions of repaired defects; known deviations are listed in /verif/known_findings.json) ---------------
def _kept_method(Context):
    """ctx.eval("var m = [1,2,3].map"); (time passes) ctx.eval("m(f)") -- the method value is used in a later evaluation"""
    import time as _t
    for attempt in range(4):
        limit = (1.0, 2.0, 4.0, 8.0)[attempt]
        c = Context(time_limit=limit)
        c.eval("var m = [1, 2, 3].map; 0")
        _t.sleep(limit + 0.1)
        t0 = _t.monotonic()
        try:
            a = c.eval("m(function (x) { for (var i = 0; i < 300; i++); return x }).join()")
            b = c.eval("var r; try { m(function () { throw 5 }) } catch (e) { r = 'caught ' + e } r")
        except Exception as e:  # noqa
            # under full machine load the second evaluation may really need more than its own second: only a stop
            # BEFORE its own deadline is the old deadline at work
            if type(e).__name__ == "TimeLimitError" and _t.monotonic() - t0 >= limit and attempt < 3:
                continue
            raise type(e)(f"{e} ({_t.monotonic() - t0:.2f} s after the evaluation started, time_limit={limit})")
        return f"{a}|{b}"


def _redeclared_globals(Context):
    """a later evaluation that declares a variable again (var x; / a var in a branch that does not run / inside eval or Function) keeps what earlier evaluations and the embedder stored"""
    c = Context()
    c.eval("var x = 41; var keep = {k: 1}; function fn() { return 7 }")
    c.set("cfg", 5)
    out = [c.eval("var x; x"), c.eval("if (false) { var cfg = 0 } cfg"), c.eval("var keep; keep.k"), c.eval("(0, eval)('var x; x')"), c.eval("eval('if (false) { var keep = 0 } keep.k')"),
           c.eval("var fn; typeof fn"), c.eval("for (var x in {}) { } x"), c.eval("try { } catch (e) { var cfg } cfg"), c.get("x"), c.get("cfg")]
    c2 = Context()
    out.append(c2.eval("typeof x + typeof cfg"))
    return out


PROBES_C12 = [
    ("method-value-kept-across-evaluations", _kept_method, "1,2,3|caught 5"),
    ("Function-body-may-end-in-a-line-comment", "[new Function('return 1 // done')(), new Function('a', 'b // second', 'return a + b // sum')(1, 2), new Function('return 7')(), (function () { try { new Function('('); return 'accepted' } catch (e) { return e.name } })()].join()", "1,3,7,SyntaxError"),
    ("redeclared-globals-keep-their-values", _redeclared_globals, [41, 5, 1, 41, 1, "function", 41, 5, 41, 5, "undefinedundefined"]),
]
groups.register_probes("C12", PROBES_C12)


# =======================================================================================================================
# K1: which VM runs the callbacks of a built-in method value (a method value read in one evaluation may be used in a later one)
# =======================================================================================================================
from pyvc.api import *      # noqa: E402


def c_running_vm(vm: Obj("VM"), ctx: Obj("Context"), cur: Obj("VM"), frames: ValList, has_ctx: Bool, has_cur: Bool):
    """VM._running_vm: a VM that has finished (its call stack is empty) hands over to the VM the context is running NOW;
    a VM that is still running, or whose context runs nothing, answers for itself -- so callbacks of a method value kept
    from an earlier evaluation run in the current evaluation (its deadline, its handlers), never in a dead one"""
    vm._context = ctx if has_ctx else None
    vm.call_stack = frames
    ctx._current_vm = cur if has_cur else None
    snap = heap_snapshot()
    o = outcome(REAL, vm)
    check("never-raises", o[0] == "ret")
    if len(frames) == 0 and has_ctx and has_cur:
        check("finished-vm-hands-over-to-the-current-one", same_ref(o[1], cur))
    else:
        check("otherwise-itself", same_ref(o[1], vm))
    check("reads-only", heap_unchanged(snap))


def _native_running_vm():
    from microjs.vm import VM
    return VM._running_vm


register(c_running_vm, id="C12.VM._running_vm", prop="C12", target=method("microjs.vm", "VM._running_vm"), native=_native_running_vm, prim_args=False)
