"""C12 - a context keeps its own state: persistent, isolated, usable after errors.
K3: no shared mutable module/class state; built-ins are constructed per context; one globals dictionary is shared by
identity with every VM of the context; a fresh VM per eval and _current_vm reset on every exit.
B: exhaustive short histories over two contexts against a one-dictionary-per-context model."""
from pyvc import groups
from pyvc.groups import ob

MUTATORS = {"append", "extend", "insert", "pop", "remove", "clear", "update", "setdefault", "add", "discard", "popitem", "sort", "reverse", "__setitem__"}


@groups.group(id="C12.struct", prop="C12", kind="K3", functions=["microjs.context:Context", "microjs (module-level state)"])
def c12_struct(tier="quick", seed=0):
    from pyvc import structural as S
    import ast
    out = []
    src = S.source()
    # 1. module-level and class-level bindings to mutable containers are never mutated; no caches
    n_bind = 0
    for mod, mi in src.modules.items():
        tree = mi.tree
        mutable = {}          # name -> lineno  (module-level), "Class.name" for class level
        for st in tree.body:
            targets = []
            if isinstance(st, ast.Assign):
                targets = [(t.id, st.value) for t in st.targets if isinstance(t, ast.Name)]
            elif isinstance(st, ast.AnnAssign) and isinstance(st.target, ast.Name) and st.value is not None:
                targets = [(st.target.id, st.value)]
            for name, val in targets:
                n_bind += 1
                if isinstance(val, (ast.List, ast.Dict, ast.Set, ast.ListComp, ast.DictComp, ast.SetComp)) or \
                        (isinstance(val, ast.Call) and getattr(val.func, "id", "") in ("list", "dict", "set", "defaultdict", "OrderedDict", "bytearray")):
                    mutable[name] = st.lineno
            if isinstance(st, ast.ClassDef):
                is_dc = any((getattr(d, "id", None) or getattr(getattr(d, "func", None), "id", None)) == "dataclass" for d in st.decorator_list)
                for cst in st.body:
                    tv = None
                    if isinstance(cst, ast.Assign) and len(cst.targets) == 1 and isinstance(cst.targets[0], ast.Name):
                        tv = (cst.targets[0].id, cst.value)
                    elif isinstance(cst, ast.AnnAssign) and isinstance(cst.target, ast.Name) and cst.value is not None and not is_dc:
                        tv = (cst.target.id, cst.value)
                    if tv and (isinstance(tv[1], (ast.List, ast.Dict, ast.Set)) or (isinstance(tv[1], ast.Call) and getattr(tv[1].func, "id", "") in ("list", "dict", "set"))):
                        out.append(ob(f"C12.struct.class-state.{mod.split('.')[-1]}.{st.name}.{tv[0]}", False, "K3",
                                      f"class-level mutable attribute {st.name}.{tv[0]} (shared by all instances / contexts) at {mod}:{cst.lineno}",
                                      witness=f"two contexts both reaching {st.name}.{tv[0]}"))
        for name, line in mutable.items():
            muts = []
            for n in ast.walk(tree):
                if isinstance(n, ast.Call) and isinstance(n.func, ast.Attribute) and n.func.attr in MUTATORS and isinstance(n.func.value, ast.Name) and n.func.value.id == name:
                    muts.append(n.lineno)
                if isinstance(n, ast.Subscript) and isinstance(n.ctx, (ast.Store, ast.Del)) and isinstance(n.value, ast.Name) and n.value.id == name:
                    muts.append(n.lineno)
                if isinstance(n, ast.Global) and name in n.names:
                    muts.append(n.lineno)
            out.append(ob(f"C12.struct.module-state.{mod.split('.')[-1]}.{name}", not muts, "K3",
                          f"module-level container {name} ({mod}:{line}) mutated at lines {muts}" if muts else f"module-level container {name} is never mutated"))
        for n in ast.walk(tree):
            if isinstance(n, ast.Global):
                out.append(ob(f"C12.struct.global-stmt.{mod.split('.')[-1]}.L{n.lineno}", False, "K3", f"`global {n.names}` at {mod}:{n.lineno}"))
            if isinstance(n, ast.FunctionDef):
                for d in n.decorator_list:
                    dn = ast.unparse(d)
                    if "cache" in dn:
                        out.append(ob(f"C12.struct.cache.{mod.split('.')[-1]}.{n.name}", False, "K3", f"@{dn} on {n.name} shares results between contexts ({mod}:{n.lineno})",
                                      witness="one context modifies the cached built-in, another observes it"))
                for dflt in n.args.defaults + n.args.kw_defaults:
                    if isinstance(dflt, (ast.List, ast.Dict, ast.Set)):
                        out.append(ob(f"C12.struct.mutable-default.{mod.split('.')[-1]}.{n.name}", False, "K3", f"mutable default argument in {n.name} ({mod}:{n.lineno})"))
    out.append(ob("C12.struct.inventory", n_bind > 0, "K3", f"{n_bind} module-level bindings inspected"))
    # 2. persistence and recovery in Context.eval
    ev = ast.unparse(S.fn("microjs.context", "Context.eval"))
    out.append(ob("C12.struct.eval-fresh-vm", "vm = VM(memory_limit=self.memory_limit, time_limit=self.time_limit)" in ev, "K3", "Context.eval builds a fresh VM"))
    out.append(ob("C12.struct.eval-shares-globals", "vm.globals = self._globals" in ev, "K3", "the VM's globals are the context's dictionary (identity)"))
    out.append(ob("C12.struct.eval-resets-current-vm", "finally:\n        self._current_vm = None" in ev, "K3", "_current_vm is reset on every exit of eval"))
    nv = ast.unparse(S.fn("microjs.context", "Context._nested_vm"))
    out.append(ob("C12.struct.nested-shares-globals", "vm.globals = self._globals" in nv, "K3", "nested eval / Function / comparators share the same dictionary"))
    init = ast.unparse(S.fn("microjs.context", "Context.__init__"))
    out.append(ob("C12.struct.init-own-globals", "self._globals: Dict[str, JSValue] = {}" in init and "self._setup_globals()" in init, "K3", "each context creates its own globals and built-ins"))
    # 3. all _create_* are instance methods (per-context construction), none static/class/cached
    ctx_cls, _ = S.source().class_info("Context")
    bad = [m for m, node in ctx_cls["methods"].items() if m.startswith("_create_") and (node.decorator_list or not node.args.args or node.args.args[0].arg != "self")]
    out.append(ob("C12.struct.builtins-per-context", not bad, "K3", f"_create_* methods that are not plain instance methods: {bad}"))
    return out


OPS = {
    "define": ("eval", "var a = 1; function f(){ return a }", None),
    "assign": ("eval", "a = (typeof a === 'number' ? a : 0) + 1; a", "inc"),
    "read": ("eval", "typeof a === 'number' ? a : -1", "read"),
    "mutate-builtin": ("eval", "JSON.zz = (JSON.zz || 0) + 1; Math.mark = 7; Object.prototype.pp = 1; 0", None),
    "see-builtin": ("eval", "var r0 = [JSON.zz === undefined ? 0 : JSON.zz, Math.mark === undefined ? 0 : Math.mark, ({}).pp === undefined ? 0 : 1]; r0", "builtin"),
    "throw": ("eval", "a = 5; throw new Error('x')", "err5"),
    "syntax-error": ("eval", "a = 9; var = ;", "synerr"),
    "loop-forever": ("eval", "a = 6; while (true) {}", "err6"),
    "recurse-forever": ("eval", "a = 7; (function f(){ return f() })()", "err7"),
    "nested-eval-define": ("eval", "eval('var a = 40'); new Function('b = 2')(); a", "def40"),
    "try-timeout-inside": ("eval", "function g(){ try { while(true){} } catch (e) { } } g()", "errkeep"),
    "return-in-try": ("eval", "function h(){ try { return 1 } catch (e) {} } h(); a = (typeof a === 'number' ? a : 0)", "keep"),
    "set": ("set", None, None), "get": ("get", None, None),
}


def _history(args):
    hist = args
    from microjs import Context
    from microjs.errors import JSError
    ctxs = [Context(time_limit=0.15, memory_limit=200000), Context(time_limit=0.15)]
    model = [{"a": None, "zz": 0, "mark": 0, "pp": 0}, {"a": None, "zz": 0, "mark": 0, "pp": 0}]
    for step, (ci, op) in enumerate(hist):
        c, m = ctxs[ci], model[ci]
        kind, src, _ = OPS[op]
        try:
            if kind == "set":
                c.set("a", 100 + step)
                m["a"] = 100 + step
                continue
            if kind == "get":
                got = c.get("a")
                if got != m["a"]:
                    return (hist, step, f"get('a') = {got!r}, model {m['a']!r}")
                continue
            err = None
            try:
                r = c.eval(src)
            except JSError as e:
                r, err = None, type(e).__name__
            except BaseException as e:  # noqa
                return (hist, step, f"host exception {type(e).__name__}: {str(e)[:60]}")
            if op == "define":
                m["a"] = 1
            elif op == "assign":
                m["a"] = (m["a"] if isinstance(m["a"], int) else 0) + 1
                if r != m["a"]:
                    return (hist, step, f"assign returned {r!r}, model {m['a']!r}")
            elif op == "read":
                want = m["a"] if isinstance(m["a"], int) else -1
                if r != want:
                    return (hist, step, f"read returned {r!r}, model {want!r}")
            elif op == "mutate-builtin":
                m["zz"] += 1
                m["mark"], m["pp"] = 7, 1
            elif op == "see-builtin":
                if r != [m["zz"], m["mark"], m["pp"]]:
                    return (hist, step, f"built-ins seen as {r!r}, model {[m['zz'], m['mark'], m['pp']]}")
            elif op in ("throw", "loop-forever", "recurse-forever"):
                m["a"] = {"throw": 5, "loop-forever": 6, "recurse-forever": 7}[op]
                if err is None:
                    return (hist, step, f"{op} did not raise (returned {r!r})")
            elif op == "syntax-error":
                if err != "JSSyntaxError":
                    return (hist, step, f"syntax error reported as {err}")
            elif op == "nested-eval-define":
                m["a"] = 40
                if r != 40:
                    return (hist, step, f"nested eval define returned {r!r}")
            elif op == "try-timeout-inside":
                if err != "TimeLimitError":
                    return (hist, step, f"loop inside try ended with {err} / {r!r}")
            elif op == "return-in-try":
                m["a"] = m["a"] if isinstance(m["a"], int) else 0
        except BaseException as e:  # noqa
            return (hist, step, f"harness error {type(e).__name__}: {e}")
    return None


@groups.group(id="C12.bounded.histories", prop="C12", kind="B", functions=["microjs.context:Context.eval", "microjs.context:Context.set", "microjs.context:Context.get"])
def c12_histories(tier="quick", seed=0):
    import itertools, multiprocessing as mp, random
    rng = random.Random(seed)
    ops = list(OPS)
    alphabet = [(ci, op) for ci in (0, 1) for op in ops]
    hists = [list(h) for h in itertools.product(alphabet, repeat=2)]
    extra = 1500 if tier == "quick" else 20000
    for _ in range(extra):
        hists.append([rng.choice(alphabet) for _ in range(rng.choice((3, 4, 5)))])
    with mp.get_context("fork").Pool(16) as pool:
        res = pool.map(_history, hists, chunksize=8)
    bad = [r for r in res if r is not None]
    by = {}
    for h in hists:
        for _, op in h:
            by.setdefault(op, [0, None])[0] += 1
    for hist, step, why in bad:
        op = hist[step][1]
        if by[op][1] is None:
            by[op][1] = (hist, step, why)
    return [ob(f"C12.bounded.histories.{op}", b is None, "B", f"appears in {n} history steps" if b is None else f"step {b[1]} of {b[0]}: {b[2]}",
               witness=(repr(b[0]) if b else None), confirmed=True if b else None, domain=n) for op, (n, b) in sorted(by.items())]


# ---- bounded: every evaluation of a creating expression yields a fresh object -----------------------------------------
FRESH = ["new Function('a', 'return a + 1')", "new Function('return 1')", "(function () { return 1; })", "(() => 1)", "/ab+c/g", "new RegExp('ab+c', 'g')", "({})", "[]",
         "new Object()", "Object.create(null)", "new Error('x')", "new Uint8Array(2)", "new ArrayBuffer(4)", "(function () {}).bind(null)", "eval('({})')", "eval('(function () {})')",
         "Object.keys({a: 1})", "'a,b'.split(',')", "JSON.parse('{\"a\": [1]}')", "[1, 2].map(function (x) { return x; })", "Object.assign({}, {a: 1})"]


@groups.group(id="C12.bounded.fresh-objects", prop="C12", kind="B", functions=["microjs.context:Context.eval"])
def c12_fresh(tier="quick", seed=0):
    """the same creating expression evaluated twice -- in one eval, in two evals of one context, after an eval that
    threw -- gives two distinct objects whose properties (and prototype objects) are independent"""
    from microjs import Context
    out = []
    for i, e in enumerate(FRESH):
        probes = [
            ("same-eval", [f"var a = {e}, b = {e}; a.mark = 1; (a !== b) + '|' + (b.mark === undefined)"], "true|true"),
            ("two-evals", [f"var a = {e}; a.mark = 1; 0", f"var b = {e}; (a !== b) + '|' + (b.mark === undefined)"], "true|true"),
            ("after-throw", [f"var a = {e}; a.mark = 1; if (a.prototype) a.prototype.m = 1; throw 1", f"var b = {e}; (b.mark === undefined) + '|' + (!b.prototype || b.prototype.m === undefined)"], "true|true"),
            ("prototype", [f"var a = {e}, b = {e}; if (a.prototype) {{ a.prototype.m = 1; }} (!b.prototype || (b.prototype.m === undefined && a.prototype !== b.prototype)) + ''"], "true"),
        ]
        bad = None
        for pname, srcs, want in probes:
            c = Context(time_limit=5)
            got = None
            for s_ in srcs:
                try:
                    got = c.eval(s_)
                except Exception as ex:  # noqa
                    got = "!" + type(ex).__name__
            if got != want and bad is None:
                bad = (pname, srcs, got)
        out.append(ob(f"C12.bounded.fresh-objects.{i:02d}", bad is None, "B", f"{e}: fresh in {len(probes)} settings" if bad is None else f"{e} [{bad[0]}]: {bad[2]!r}",
                      witness=("; ".join(bad[1]) if bad else None), confirmed=True if bad else None, domain=len(probes)))
    return out
