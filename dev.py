#!/usr/bin/env python3-vt
"""development runner: dev.py <module> [id-regex] [--timeout N] — one process per contract"""
import sys, time, re, os, multiprocessing as mp, importlib, json
sys.path.insert(0, '/verif'); sys.path.insert(0, os.environ.get("MICROJS_SRC", '/repo/src'))

def work(modname, cid, q):
    from pyvc.run import Runner
    from pyvc import api
    importlib.import_module(modname)
    c = [x for x in api.REGISTRY if x.id == cid][0]
    r = Runner()
    t = time.time()
    try:
        res = r.run_symbolic(c, budget_s=float(os.environ.get("BUDGET", "120")))
    except BaseException as e:
        import traceback
        q.put(f"{cid} CRASH " + traceback.format_exc()[-600:]); return
    out = [f"{c.id} {res.status} {res.detail} {time.time()-t:.1f}s paths={len(res.paths)} solver={res.solver_s:.1f}s uf={sorted(res.uf)}"]
    for name, a in res.obligations.items():
        out.append(f"   {name}: {a['status']} paths={a['paths']} {list(a['why'])[:2]}")
        seen = set()
        for ob in a['refutations']:
            k = repr(ob.get('inputs'))
            if k in seen: continue
            seen.add(k)
            if len(seen) > 8: break
            out.append(f"      CEX {ob.get('inputs')} {ob.get('concretize_error','')}")
    st = {}
    for pr in res.paths:
        st[pr.status] = st.get(pr.status, 0) + 1
        for n in getattr(pr, 'notes', []): out.append("   note " + n)
        if pr.status in ('unsupported', 'error'):
            out.append(f"   path {pr.status}: {pr.detail[:400]}")
        if pr.crosscheck and pr.crosscheck['status'] not in ('agree',):
            out.append(f"   XCHK {pr.crosscheck}")
    out.append(f"   paths by status: {st}")
    q.put("\n".join(dict.fromkeys(out)))

if __name__ == "__main__":
    modname = sys.argv[1]
    rx = sys.argv[2] if len(sys.argv) > 2 and not sys.argv[2].startswith('--') else '.*'
    to = int(sys.argv[sys.argv.index('--timeout')+1]) if '--timeout' in sys.argv else 150
    from pyvc import api
    importlib.import_module(modname)
    ids = [c.id for c in api.REGISTRY if re.search(rx, c.id)]
    ctx = mp.get_context("fork")
    procs = []
    for cid in ids:
        q = ctx.Queue()
        p = ctx.Process(target=work, args=(modname, cid, q)); p.start()
        procs.append((cid, p, q, time.time()))
    for cid, p, q, t0 in procs:
        try:
            print(q.get(timeout=max(1, to - (time.time() - t0))), flush=True)
        except Exception:
            print(f"{cid} TIMEOUT after {to}s", flush=True)
        p.kill(); p.join()
